// Contract bundle for crates/oxidd-rules-zbdd/src/{lib,apply_rec}.rs (property C09 and the ZBDD parts of C01/C02/C03/C04/C06/C12/C13/C16);
// see contracts/zbdd.REPORT.md for the list of units, assumptions, findings and what is not covered.
// Everything between `//@fn`/`//@item` and `//@end` is replaced by text extracted
// from /repo on every run (vx/bundle.py).  Everything else is the hand-written
// contract prelude: the *assumed* manager contract over the stateless term view
// (DESIGN.md section 1) plus spec functions and lemmas.
#![allow(unused_imports, dead_code, unused_variables, unused_mut, unused_parens, unused_braces, noop_method_call, unreachable_patterns, non_snake_case)]
use vstd::prelude::*;
use std::borrow::Borrow;
use std::cmp::Ordering;
use vstd::std_specs::cmp::{PartialEqSpec, PartialOrdSpec, OrdSpec};
use vstd::std_specs::ops::{AddSpec, ShrSpec, ShlSpec};
use vstd::std_specs::convert::FromSpec;
//@recursor file=crates/oxidd-rules-zbdd/src/recursor.rs
verus! {

// ---------- abstract view ----------
/// `Leaf(false)` = Empty (the family ∅), `Leaf(true)` = Base (the family {∅}), `Inner(level, hi, lo)`
pub enum Tree { Leaf(bool), Inner(u32, Box<Tree>, Box<Tree>) }
/// a set of levels as characteristic function (also used as Boolean assignment, indexed by level)
pub type Env = spec_fn(int) -> bool;

pub open spec fn top(t: Tree) -> int {
    match t { Tree::Leaf(_) => u32::MAX as int, Tree::Inner(l, _, _) => l as int }
}
pub open spec fn ee() -> Tree { Tree::Leaf(false) }
pub open spec fn bb() -> Tree { Tree::Leaf(true) }
/// ordered (levels strictly increase downwards) and reduced by the zero-suppression rule (hi-child never ∅)
pub open spec fn wf(t: Tree) -> bool decreases t {
    match t {
        Tree::Leaf(_) => true,
        Tree::Inner(l, a, b) => l < u32::MAX && (l as int) < top(*a) && (l as int) < top(*b) && *a != Tree::Leaf(false) && wf(*a) && wf(*b),
    }
}
/// all levels of `t` are `< n`
pub open spec fn below(t: Tree, n: int) -> bool decreases t {
    match t {
        Tree::Leaf(_) => true,
        Tree::Inner(l, a, b) => (l as int) < n && below(*a, n) && below(*b, n),
    }
}
pub open spec fn upd(s: Env, l: int, v: bool) -> Env { |i: int| if i == l { v } else { s(i) } }
pub open spec fn is_empty_set(s: Env) -> bool { forall|i: int| !(#[trigger] s(i)) }
/// family membership: is the set `s` (of levels) a member of the family denoted by `t`?
pub open spec fn mem(t: Tree, s: Env) -> bool decreases t {
    match t {
        Tree::Leaf(b) => b && is_empty_set(s),
        Tree::Inner(l, a, b) => if s(l as int) { mem(*a, upd(s, l as int, false)) } else { mem(*b, s) },
    }
}
pub open spec fn mk(l: u32, a: Tree, b: Tree) -> Tree { Tree::Inner(l, Box::new(a), Box::new(b)) }
/// the handle is a legal diagram of a manager with `n` levels
pub open spec fn ok(t: Tree, n: int) -> bool { wf(t) && below(t, n) }
pub open spec fn is_inner(t: Tree) -> bool { t is Inner }

// "re-fuelling" lemmas (see contracts/README.md)
pub broadcast proof fn lemma_mem_mk(l: u32, a: Tree, b: Tree, s: Env)
    ensures #[trigger] mem(mk(l, a, b), s) == (if s(l as int) { mem(a, upd(s, l as int, false)) } else { mem(b, s) }) {}
pub broadcast proof fn lemma_wf_mk(l: u32, a: Tree, b: Tree)
    ensures #[trigger] wf(mk(l, a, b)) == (l < u32::MAX && (l as int) < top(a) && (l as int) < top(b) && a != Tree::Leaf(false) && wf(a) && wf(b)) {}
pub broadcast proof fn lemma_below_mk(l: u32, a: Tree, b: Tree, n: int)
    ensures #[trigger] below(mk(l, a, b), n) == ((l as int) < n && below(a, n) && below(b, n)) {}

/// key lemma: a member of the family of `t` contains no level above the top of `t`
pub proof fn lemma_mem_above_ind(t: Tree, s: Env, l: int)
    requires wf(t), l < top(t), s(l),
    ensures !mem(t, s),
    decreases t,
{
    match t {
        Tree::Leaf(_) => {}
        Tree::Inner(k, a, b) => {
            if s(k as int) { assert(upd(s, k as int, false)(l)); lemma_mem_above_ind(*a, upd(s, k as int, false), l); }
            else { lemma_mem_above_ind(*b, s, l); }
        }
    }
}
pub broadcast proof fn lemma_mem_above(t: Tree, s: Env, l: int)
    requires wf(t), l < top(t), #[trigger] s(l),
    ensures !(#[trigger] mem(t, s)),
{ lemma_mem_above_ind(t, s, l); }
pub broadcast proof fn lemma_mem_upd_above(t: Tree, s: Env, l: int)
    requires wf(t), l < top(t),
    ensures !(#[trigger] mem(t, upd(s, l, true))),
{ assert(upd(s, l, true)(l)); lemma_mem_above_ind(t, upd(s, l, true), l); }
/// sets are compared extensionally
pub broadcast proof fn lemma_upd_comm(s: Env, a: int, x: bool, b: int, y: bool)
    requires a != b,
    ensures #[trigger] upd(upd(s, a, x), b, y) == upd(upd(s, b, y), a, x),
{ assert(upd(upd(s, a, x), b, y) =~= upd(upd(s, b, y), a, x)); }
pub broadcast proof fn lemma_upd_same(s: Env, a: int, x: bool, y: bool)
    ensures #[trigger] upd(upd(s, a, x), a, y) == upd(s, a, y),
{ assert(upd(upd(s, a, x), a, y) =~= upd(s, a, y)); }
pub broadcast proof fn lemma_upd_id(s: Env, a: int, x: bool)
    requires s(a) == x,
    ensures #[trigger] upd(s, a, x) == s,
{ assert(upd(s, a, x) =~= s); }
pub broadcast group leaf_lemmas { lemma_mem_mk, lemma_wf_mk, lemma_below_mk, lemma_mem_above, lemma_mem_upd_above }
pub broadcast group upd_lemmas { lemma_upd_comm, lemma_upd_same, lemma_upd_id }

// ---------- family view: the operations of C09, written from the documentation ----------
/// `s` is exactly the set {v}
pub open spec fn is_singleton_set(s: Env, v: int) -> bool { forall|i: int| (#[trigger] s(i)) <==> i == v }
/// all elements of `s` are in `l..n`
pub open spec fn within(s: Env, l: int, n: int) -> bool { forall|i: int| (#[trigger] s(i)) ==> l <= i < n }
pub open spec fn res_top_ok2(r: Tree, a: Tree, b: Tree) -> bool { top(r) >= top(a) || top(r) >= top(b) }
pub open spec fn union_post(f: Tree, g: Tree, n: int, r: Tree) -> bool {
    ok(r, n) && res_top_ok2(r, f, g) && forall|s: Env| #[trigger] mem(r, s) == (mem(f, s) || mem(g, s))
}
pub open spec fn intsec_post(f: Tree, g: Tree, n: int, r: Tree) -> bool {
    ok(r, n) && res_top_ok2(r, f, g) && forall|s: Env| #[trigger] mem(r, s) == (mem(f, s) && mem(g, s))
}
pub open spec fn diff_post(f: Tree, g: Tree, n: int, r: Tree) -> bool {
    ok(r, n) && res_top_ok2(r, f, g) && forall|s: Env| #[trigger] mem(r, s) == (mem(f, s) && !mem(g, s))
}
pub open spec fn symm_diff_post(f: Tree, g: Tree, n: int, r: Tree) -> bool {
    ok(r, n) && res_top_ok2(r, f, g) && forall|s: Env| #[trigger] mem(r, s) == (mem(f, s) != mem(g, s))
}
pub open spec fn ite_post(f: Tree, g: Tree, h: Tree, n: int, r: Tree) -> bool {
    ok(r, n) && (top(r) >= top(f) || top(r) >= top(g) || top(r) >= top(h))
    && forall|s: Env| #[trigger] mem(r, s) == (if mem(f, s) { mem(g, s) } else { mem(h, s) })
}
/// `{s ∈ f | v ∉ s}`
pub open spec fn subset0_post(f: Tree, v: int, n: int, r: Tree) -> bool {
    ok(r, n) && top(r) >= top(f) && forall|s: Env| #[trigger] mem(r, s) == (!s(v) && mem(f, s))
}
/// `{s ∖ {v} | s ∈ f ∧ v ∈ s}`
pub open spec fn subset1_post(f: Tree, v: int, n: int, r: Tree) -> bool {
    ok(r, n) && top(r) >= top(f) && forall|s: Env| #[trigger] mem(r, s) == (!s(v) && mem(f, upd(s, v, true)))
}
/// `{s ∪ {v} | s ∈ f ∧ v ∉ s} ∪ {s ∖ {v} | s ∈ f ∧ v ∈ s}`
pub open spec fn change_post(f: Tree, v: int, n: int, r: Tree) -> bool {
    ok(r, n) && (top(r) >= top(f) || top(r) >= v) && forall|s: Env| #[trigger] mem(r, s) == mem(f, upd(s, v, !s(v)))
}
/// the power set of the levels `l..n` (tautology chain of `ZBDDCache`)
pub open spec fn taut_tree(l: int, n: int) -> Tree decreases n - l {
    if 0 <= l < n <= u32::MAX { mk(l as u32, taut_tree(l + 1, n), taut_tree(l + 1, n)) } else { Tree::Leaf(true) }
}
/// complement w.r.t. the power set of all `n` variables
pub open spec fn not_post(f: Tree, n: int, r: Tree) -> bool {
    ok(r, n) && forall|s: Env| #[trigger] mem(r, s) == (within(s, 0, n) && !mem(f, s))
}

// ---------- Boolean-function view (C02): assignment `env` over the n variables of the manager ----------
pub open spec fn set_of(env: Env, n: int) -> Env { |i: int| 0 <= i < n && env(i) }
/// `env` satisfies the function denoted by `t` in a manager with `n` variables
pub open spec fn bsem(t: Tree, n: int, env: Env) -> bool { mem(t, set_of(env, n)) }
pub open spec fn prop_and(a: bool, b: bool) -> bool { a && b }
pub open spec fn prop_or(a: bool, b: bool) -> bool { a || b }
pub open spec fn prop_nand(a: bool, b: bool) -> bool { !(a && b) }
pub open spec fn prop_nor(a: bool, b: bool) -> bool { !(a || b) }
pub open spec fn prop_xor(a: bool, b: bool) -> bool { a != b }
pub open spec fn prop_equiv(a: bool, b: bool) -> bool { a == b }
pub open spec fn prop_imp(a: bool, b: bool) -> bool { a ==> b }
pub open spec fn prop_imp_strict(a: bool, b: bool) -> bool { !a && b }

pub proof fn lemma_taut_ok_ind(l: int, n: int)
    requires 0 <= l <= n <= u32::MAX,
    ensures ok(taut_tree(l, n), n), top(taut_tree(l, n)) >= l, taut_tree(l, n) != ee(), (l < n ==> top(taut_tree(l, n)) == l),
    decreases n - l,
{
    if l < n { lemma_taut_ok_ind(l + 1, n); }
}
pub proof fn lemma_mem_taut_ind(l: int, n: int, s: Env)
    requires 0 <= l <= n <= u32::MAX,
    ensures mem(taut_tree(l, n), s) == within(s, l, n),
    decreases n - l,
{
    if l < n {
        lemma_mem_taut_ind(l + 1, n, s);
        lemma_mem_taut_ind(l + 1, n, upd(s, l, false));
        let t = taut_tree(l + 1, n);
        assert(mem(taut_tree(l, n), s) == (if s(l) { mem(t, upd(s, l, false)) } else { mem(t, s) }));
        if s(l) {
            if within(upd(s, l, false), l + 1, n) {
                assert forall|i: int| (#[trigger] s(i)) implies l <= i < n by { if i != l { assert(upd(s, l, false)(i)); } }
            }
            if within(s, l, n) {
                assert forall|i: int| (#[trigger] upd(s, l, false)(i)) implies l + 1 <= i < n by { assert(s(i)); }
            }
        } else {
            if within(s, l + 1, n) { assert forall|i: int| (#[trigger] s(i)) implies l <= i < n by {} }
            if within(s, l, n) { assert forall|i: int| (#[trigger] s(i)) implies l + 1 <= i < n by { if i == l {} } }
        }
    } else {
        if is_empty_set(s) { assert forall|i: int| (#[trigger] s(i)) implies l <= i < n by {} }
        if within(s, l, n) { assert forall|i: int| !(#[trigger] s(i)) by { if s(i) {} } }
    }
}
pub broadcast proof fn lemma_taut_ok(l: int, n: int)
    requires 0 <= l <= n <= u32::MAX,
    ensures ok(#[trigger] taut_tree(l, n), n), top(taut_tree(l, n)) >= l, taut_tree(l, n) != ee(), (l < n ==> top(taut_tree(l, n)) == l),
{ lemma_taut_ok_ind(l, n); }
pub broadcast proof fn lemma_mem_taut(l: int, n: int, s: Env)
    requires 0 <= l <= n <= u32::MAX,
    ensures #[trigger] mem(taut_tree(l, n), s) == within(s, l, n),
{ lemma_mem_taut_ind(l, n, s); }
/// every member of a legal diagram is a subset of `top(t)..n`
pub proof fn lemma_mem_within_ind(t: Tree, s: Env, l: int, n: int)
    requires ok(t, n), l <= top(t), mem(t, s),
    ensures within(s, l, n),
    decreases t,
{
    match t {
        Tree::Leaf(_) => {}
        Tree::Inner(k, a, b) => {
            if s(k as int) {
                lemma_mem_within_ind(*a, upd(s, k as int, false), l, n);
                assert forall|i: int| (#[trigger] s(i)) implies l <= i < n by { if i != k as int { assert(upd(s, k as int, false)(i)); } }
            } else { lemma_mem_within_ind(*b, s, l, n); }
        }
    }
}
pub broadcast proof fn lemma_mem_within(t: Tree, s: Env, l: int, n: int)
    requires wf(t), below(t, n), l <= top(t), #[trigger] mem(t, s),
    ensures #[trigger] within(s, l, n),
{ lemma_mem_within_ind(t, s, l, n); }
pub broadcast proof fn lemma_set_of_within(env: Env, n: int)
    ensures #[trigger] within(set_of(env, n), 0, n),
{}
/// the tautology at `l` covers every legal diagram whose top is not above `l` (what apply_ite uses)
pub broadcast proof fn lemma_taut_covers(t: Tree, s: Env, l: int, n: int)
    requires wf(t), below(t, n), 0 <= l <= top(t), l <= n <= u32::MAX, #[trigger] mem(t, s),
    ensures #[trigger] mem(taut_tree(l, n), s),
{ lemma_mem_within_ind(t, s, l, n); lemma_mem_taut_ind(l, n, s); }
pub broadcast group taut_lemmas { lemma_taut_ok, lemma_mem_taut, lemma_mem_within, lemma_set_of_within }
pub broadcast group ite_lemmas { lemma_taut_ok, lemma_taut_covers }

/// singleton / base families
pub broadcast proof fn lemma_singleton_set(s: Env, v: int)
    ensures (s(v) && #[trigger] is_empty_set(upd(s, v, false))) == is_singleton_set(s, v),
{
    if s(v) && is_empty_set(upd(s, v, false)) {
        assert forall|i: int| (#[trigger] s(i)) <==> i == v by { if i != v { assert(!upd(s, v, false)(i)); } }
    }
    if is_singleton_set(s, v) {
        assert(s(v));
        assert forall|i: int| !(#[trigger] upd(s, v, false)(i)) by { if i != v { assert(!s(i)); } }
    }
}
pub broadcast group set_lemmas { lemma_singleton_set }

// ---------- canonicity (C01/C03): equal families <=> identical zero-suppressed ordered diagrams <=> equal handles ----------
/// every well-formed diagram other than ∅ has a member (this is what the zero-suppression rule buys)
pub proof fn witness(t: Tree) -> (s: Env)
    requires wf(t), t != ee(),
    ensures mem(t, s),
    decreases t,
{
    match t {
        Tree::Leaf(_) => { let s = |i: int| false; assert(is_empty_set(s)); s }
        Tree::Inner(l, a, b) => {
            let w = witness(*a);
            if w(l as int) { lemma_mem_above_ind(*a, w, l as int); }
            assert(upd(upd(w, l as int, true), l as int, false) =~= w);
            upd(w, l as int, true)
        }
    }
}
//@lemma name=distinguish props=C01
pub proof fn distinguish(a: Tree, b: Tree) -> (s: Env)
    requires wf(a), wf(b), a != b,
    ensures mem(a, s) != mem(b, s),
    decreases a, b,
{
    match (a, b) {
        (Tree::Leaf(x), Tree::Leaf(y)) => { let s = |i: int| false; assert(is_empty_set(s)); s }
        (Tree::Inner(l, a1, a0), _) if top(b) > l => {
            if *a0 != b {
                let e = distinguish(*a0, b);
                if e(l as int) { lemma_mem_above_ind(*a0, e, l as int); lemma_mem_above_ind(b, e, l as int); }
                e
            } else {
                let w = witness(*a1);
                if w(l as int) { lemma_mem_above_ind(*a1, w, l as int); }
                assert(upd(upd(w, l as int, true), l as int, false) =~= w);
                assert(upd(w, l as int, true)(l as int));
                lemma_mem_above_ind(b, upd(w, l as int, true), l as int);
                upd(w, l as int, true)
            }
        }
        (Tree::Inner(l, a1, a0), Tree::Inner(k, b1, b0)) if k == l => {
            if *a1 != *b1 {
                let e = distinguish(*a1, *b1);
                if e(l as int) { lemma_mem_above_ind(*a1, e, l as int); lemma_mem_above_ind(*b1, e, l as int); }
                assert(upd(upd(e, l as int, true), l as int, false) =~= e);
                upd(e, l as int, true)
            } else {
                let e = distinguish(*a0, *b0);
                if e(l as int) { lemma_mem_above_ind(*a0, e, l as int); lemma_mem_above_ind(*b0, e, l as int); }
                e
            }
        }
        (_, Tree::Inner(k, b1, b0)) => {
            if a != *b0 {
                let e = distinguish(a, *b0);
                if e(k as int) { lemma_mem_above_ind(a, e, k as int); lemma_mem_above_ind(*b0, e, k as int); }
                e
            } else {
                let w = witness(*b1);
                if w(k as int) { lemma_mem_above_ind(*b1, w, k as int); }
                assert(upd(upd(w, k as int, true), k as int, false) =~= w);
                assert(upd(w, k as int, true)(k as int));
                lemma_mem_above_ind(a, upd(w, k as int, true), k as int);
                upd(w, k as int, true)
            }
        }
        _ => { assert(false); |i: int| true }
    }
}
/// two well-formed (ordered, zero-suppressed) diagrams denoting the same family are identical
//@lemma name=canonicity props=C01,C03
pub proof fn canonicity(a: Tree, b: Tree)
    requires wf(a), wf(b), forall|s: Env| mem(a, s) == mem(b, s),
    ensures a == b,
{
    if a != b { let s = distinguish(a, b); assert(mem(a, s) == mem(b, s)); }
}
/// handle level: under the hash-consing contract, two handles of well-formed diagrams compare equal iff they denote the same
/// family.  Every operation of this bundle ensures `ok(result)`, so by induction over any history every live handle is
/// well-formed and this lemma applies to any two of them.
//@lemma name=handles_equal_iff_same_family props=C01
pub proof fn handles_equal_iff_same_family<E: Edge>(x: E, y: E)
    requires edge_ok::<E>(), wf(x.view()), wf(y.view()),
    ensures x.eq_spec(&y) <==> (forall|s: Env| mem(x.view(), s) == mem(y.view(), s)),
{
    if forall|s: Env| mem(x.view(), s) == mem(y.view(), s) { canonicity(x.view(), y.view()); }
}
/// the result of an operation is determined by its specification alone (independent of cache content, history, order of evaluation)
//@lemma name=result_determined_by_spec props=C01,C06
pub proof fn result_determined_by_spec(r1: Tree, r2: Tree, spec: spec_fn(Env) -> bool)
    requires wf(r1), wf(r2), forall|s: Env| mem(r1, s) == spec(s), forall|s: Env| mem(r2, s) == spec(s),
    ensures r1 == r2,
{
    canonicity(r1, r2);
}
// ---------- family view vs. Boolean view (C09) ----------
/// the family of a legal diagram and its Boolean function over the `n` variables determine each other:
/// `s` is a member iff `s` is a set of variables of the manager and, read as an assignment, satisfies the function
//@lemma name=family_view_is_boolean_view props=C09
pub proof fn family_view_is_boolean_view(t: Tree, n: int, s: Env)
    requires ok(t, n),
    ensures mem(t, s) == (within(s, 0, n) && bsem(t, n, s)), top(t) >= 0,
{
    if within(s, 0, n) {
        assert(set_of(s, n) =~= s) by { assert forall|i: int| #[trigger] set_of(s, n)(i) == s(i) by { if s(i) {} } }
    } else if mem(t, s) {
        lemma_mem_within_ind(t, s, 0, n);
    }
}
/// hence also the Boolean view is canonical: same function over the same `n` variables => identical diagram
//@lemma name=canonicity_boolean_view props=C01,C09
pub proof fn canonicity_boolean_view(a: Tree, b: Tree, n: int)
    requires ok(a, n), ok(b, n), forall|env: Env| bsem(a, n, env) == bsem(b, n, env),
    ensures a == b,
{
    assert forall|s: Env| mem(a, s) == mem(b, s) by { family_view_is_boolean_view(a, n, s); family_view_is_boolean_view(b, n, s); }
    canonicity(a, b);
}
/// adding variables (new levels n..n2 are appended below all existing ones) keeps every diagram legal and its family unchanged
/// (`mem` does not mention `n`); its Boolean function changes exactly as documented: the new variables must be false
//@lemma name=add_vars_boolean_view props=C09,C16
pub proof fn add_vars_boolean_view(t: Tree, n: int, n2: int, env: Env)
    requires ok(t, n), 0 <= n <= n2,
    ensures ok(t, n2), bsem(t, n2, env) == (bsem(t, n, env) && forall|i: int| n <= i < n2 ==> !#[trigger] env(i)),
{
    lemma_below_mono(t, n, n2);
    if forall|i: int| n <= i < n2 ==> !#[trigger] env(i) {
        assert(set_of(env, n2) =~= set_of(env, n)) by { assert forall|i: int| #[trigger] set_of(env, n2)(i) == set_of(env, n)(i) by { if env(i) {} } }
    } else {
        assert(exists|i: int| n <= i < n2 && #[trigger] env(i));
        let i = choose|i: int| n <= i < n2 && #[trigger] env(i);
        if mem(t, set_of(env, n2)) { lemma_mem_within_ind(t, set_of(env, n2), 0, n); assert(set_of(env, n2)(i)); }
    }
}
pub proof fn lemma_below_mono(t: Tree, n: int, n2: int)
    requires below(t, n), n <= n2,
    ensures below(t, n2),
    decreases t,
{
    match t { Tree::Leaf(_) => {} Tree::Inner(l, a, b) => { lemma_below_mono(*a, n, n2); lemma_below_mono(*b, n, n2); } }
}
/// cofactors (C02, reduced-domain reading): the children of a node are subset1 / subset0 of the node w.r.t. its own variable
//@lemma name=cofactors_are_subsets props=C02,C09
pub proof fn cofactors_are_subsets(l: u32, hi: Tree, lo: Tree, n: int)
    requires ok(mk(l, hi, lo), n),
    ensures subset1_post(mk(l, hi, lo), l as int, n, hi), subset0_post(mk(l, hi, lo), l as int, n, lo),
{
    let t = mk(l, hi, lo);
    let v = l as int;
    assert forall|s: Env| #[trigger] mem(hi, s) == (!s(v) && mem(t, upd(s, v, true))) by {
        assert(upd(s, v, true)(v));
        assert(upd(upd(s, v, true), v, false) =~= upd(s, v, false));
        if s(v) { lemma_mem_above_ind(hi, s, v); } else { assert(upd(s, v, false) =~= s); }
    }
    assert forall|s: Env| #[trigger] mem(lo, s) == (!s(v) && mem(t, s)) by {
        if s(v) { lemma_mem_above_ind(lo, s, v); }
    }
}

// ---------- restrict (C04, ZBDD reading): cofactor w.r.t. a partial assignment given as a cube ----------
/// A conjunction of literals over the variables `level..n` as a ZBDD: a node with hi == lo leaves its variable unassigned,
/// a node with lo == ∅ is a positive literal, and a level WITHOUT a node is a negative literal (zero-suppression).
pub enum Lit { Neg, Pos, DC }
pub open spec fn is_cube(c: Tree) -> bool decreases c {
    match c {
        Tree::Leaf(b) => b,
        Tree::Inner(_, a, b) => (*a == *b || *b == Tree::Leaf(false)) && is_cube(*a),
    }
}
pub open spec fn cube_lit(c: Tree, l: int) -> Lit decreases c {
    match c {
        Tree::Leaf(_) => Lit::Neg,
        Tree::Inner(k, a, b) => if l < k as int { Lit::Neg } else if l == k as int { if *a == *b { Lit::DC } else { Lit::Pos } } else { cube_lit(*a, l) },
    }
}
/// the set/assignment `s` with the variables `from..n` overridden by the literals of the cube `c`
pub open spec fn cenv(c: Tree, from: int, n: int, s: Env) -> Env {
    |l: int| if l < from || l >= n { s(l) } else { match cube_lit(c, l) { Lit::Neg => false, Lit::Pos => true, Lit::DC => s(l) } }
}
/// `r` is the restriction of `f` (a function of the variables `level..n`) by the cube `c`
pub open spec fn restrict_post(f: Tree, c: Tree, level: int, n: int, r: Tree) -> bool {
    ok(r, n) && top(r) >= level && forall|s: Env| #[trigger] mem(r, s) == mem(f, cenv(c, level, n, s))
}
/// Boolean reading of the whole cube (all n variables)
pub open spec fn cube_env(c: Tree, env: Env) -> Env {
    |l: int| match cube_lit(c, l) { Lit::Neg => false, Lit::Pos => true, Lit::DC => env(l) }
}
pub broadcast proof fn lemma_is_cube_mk(l: u32, a: Tree, b: Tree)
    ensures #[trigger] is_cube(mk(l, a, b)) == ((a == b || b == Tree::Leaf(false)) && is_cube(a)) {}
pub broadcast proof fn lemma_cube_lit_mk(k: u32, a: Tree, b: Tree, l: int)
    ensures #[trigger] cube_lit(mk(k, a, b), l) == (if l < k as int { Lit::Neg } else if l == k as int { if a == b { Lit::DC } else { Lit::Pos } } else { cube_lit(a, l) }) {}
pub proof fn lemma_cube_lit_above(c: Tree, l: int)
    requires l < top(c),
    ensures cube_lit(c, l) == Lit::Neg,
{}
/// negative literal at `level` (the cube has no node there): descend with the variable forced to false.
/// (Both lemmas rewrite the level+1 form, which the callee's postcondition supplies, to the level form and create no
/// deeper terms: a lemma `cenv(c, l, ..) == cenv(c, l+1, ..)` triggered on its left side would be a matching loop.)
pub broadcast proof fn lemma_cenv_neg(c: Tree, level: int, l1: int, n: int, s: Env)
    requires level < top(c), level < n, l1 == level + 1,
    ensures #[trigger] cenv(c, l1, n, upd(s, level, false)) == cenv(c, level, n, s), !cenv(c, level, n, s)(level),
{
    lemma_cube_lit_above(c, level);
    assert(cenv(c, level, n, s) =~= cenv(c, l1, n, upd(s, level, false)));
}
pub broadcast proof fn lemma_cenv_neg0(c: Tree, level: int, l1: int, n: int, s: Env)
    requires level < top(c), level < n, l1 == level + 1, !s(level),
    ensures #[trigger] cenv(c, l1, n, s) == #[trigger] cenv(c, level, n, s),
{
    lemma_cube_lit_above(c, level);
    assert(cenv(c, level, n, s) =~= cenv(c, l1, n, s));
}
/// node at `level`: below it the cube is its hi-child
pub broadcast proof fn lemma_cenv_node(k: u32, a: Tree, b: Tree, n: int, s: Env)
    requires wf(mk(k, a, b)), (k as int) < n,
    ensures
        upd(#[trigger] cenv(mk(k, a, b), k as int, n, s), k as int, false) == cenv(a, k as int + 1, n, upd(s, k as int, false)),
        cenv(mk(k, a, b), k as int, n, s)(k as int) == (if a == b { s(k as int) } else { true }),
        a == b ==> cenv(mk(k, a, b), k as int, n, s) == cenv(a, k as int + 1, n, s),
{
    let c = mk(k, a, b);
    let l0 = k as int;
    assert forall|l: int| l > l0 implies cube_lit(c, l) == cube_lit(a, l) by {}
    assert(upd(cenv(c, l0, n, s), l0, false) =~= cenv(a, l0 + 1, n, upd(s, l0, false)));
    if a == b { assert(cenv(c, l0, n, s) =~= cenv(a, l0 + 1, n, s)); }
}
/// positive literal on a variable the diagram skips: the cofactor is ∅
pub broadcast proof fn lemma_cenv_pos_above(f: Tree, k: u32, a: Tree, b: Tree, n: int, s: Env)
    requires wf(f), (k as int) < top(f), (k as int) < n, a != b,
    ensures !(#[trigger] mem(f, cenv(mk(k, a, b), k as int, n, s))),
{
    assert(cenv(mk(k, a, b), k as int, n, s)(k as int));
    lemma_mem_above_ind(f, cenv(mk(k, a, b), k as int, n, s), k as int);
}
/// the whole-cube Boolean reading
pub broadcast proof fn lemma_cenv_boolean(c: Tree, n: int, env: Env)
    ensures #[trigger] cenv(c, 0, n, set_of(env, n)) == set_of(cube_env(c, env), n),
{
    assert(cenv(c, 0, n, set_of(env, n)) =~= set_of(cube_env(c, env), n));
}
pub broadcast group restrict_lemmas { lemma_is_cube_mk, lemma_cube_lit_mk, lemma_cenv_neg, lemma_cenv_neg0, lemma_cenv_node, lemma_cenv_pos_above, lemma_cenv_boolean }

// ---------- cube picking (C13), ZBDD reading of a cube: see `is_cube` / `cube_lit` above ----------
/// `r` is a cube picked from `t`: one decision per visited node.  Variable true: a node on the same level whose lo-child is ∅
/// (positive literal), or equal to its hi-child where the diagram itself does not depend on the variable (don't care);
/// variable false (no node on that level): only where this is a free decision, i.e. the lo-child is satisfiable and the
/// diagram depends on the variable.  The hi-child of a well-formed ZBDD node is always satisfiable.
pub open spec fn zpick_ok(t: Tree, r: Tree) -> bool decreases t {
    match t {
        Tree::Leaf(_) => r == t,
        Tree::Inner(l, a, b) => {
            ||| match r { Tree::Inner(rl, ra, rb) => rl == l && zpick_ok(*a, *ra) && (if *a == *b { *rb == *ra } else { *rb == ee() }), Tree::Leaf(_) => false }
            ||| (*a != *b && *b != ee() && zpick_ok(*b, r))
        }
    }
}
/// `r` follows the caller's choice oracle `o` wherever the decision is free (lo-child satisfiable and hi != lo):
/// oracle true = variable true (a node on that level), oracle false = variable false (no node on that level)
pub open spec fn zpick_follows(t: Tree, o: spec_fn(Tree, u32) -> bool, r: Tree) -> bool decreases t {
    match t {
        Tree::Leaf(_) => true,
        Tree::Inner(l, a, b) => {
            let free = *b != ee() && *a != *b;
            if r is Inner && top(r) == l as int { (free ==> o(t, l)) && zpick_follows(*a, o, then_of(r)) }
            else { (free ==> !o(t, l)) && zpick_follows(*b, o, r) }
        }
    }
}
pub broadcast proof fn lemma_zpick_follows_mk(l: u32, a: Tree, b: Tree, o: spec_fn(Tree, u32) -> bool, r: Tree)
    ensures #[trigger] zpick_follows(mk(l, a, b), o, r) == ({
        let free = b != ee() && a != b;
        if r is Inner && top(r) == l as int { (free ==> o(mk(l, a, b), l)) && zpick_follows(a, o, then_of(r)) }
        else { (free ==> !o(mk(l, a, b), l)) && zpick_follows(b, o, r) }
    }),
{}
pub broadcast proof fn lemma_zpick_follows_leaf(c: bool, o: spec_fn(Tree, u32) -> bool, r: Tree)
    ensures #[trigger] zpick_follows(Tree::Leaf(c), o, r),
{}
/// the same with a literal set `ls` (a cube): where the decision is free it follows the polarity of `ls`; a variable that is
/// unassigned in `ls` stays don't-care where the diagram allows, otherwise either value may be picked
pub open spec fn zpick_set_ok(t: Tree, ls: Tree, r: Tree) -> bool decreases t {
    match t {
        Tree::Leaf(_) => r == t,
        Tree::Inner(l, a, b) => {
            let lit = cube_lit(ls, l as int);
            let forced = *b == ee();
            ||| match r { Tree::Inner(rl, ra, rb) => rl == l && zpick_set_ok(*a, ls, *ra)
                    && (if !forced && lit == Lit::DC && *a == *b { *rb == *ra } else { *rb == ee() })
                    && (forced || lit != Lit::Neg), Tree::Leaf(_) => false }
            ||| (!forced && lit != Lit::Pos && !(lit == Lit::DC && *a == *b) && zpick_set_ok(*b, ls, r))
        }
    }
}
/// what both have in common: `r` decides every visited node of `t`, never enters ∅, and leaves a variable don't-care only
/// where the diagram does not depend on it
pub open spec fn zpick_any(t: Tree, r: Tree) -> bool decreases t {
    match t {
        Tree::Leaf(_) => r == t,
        Tree::Inner(l, a, b) => {
            ||| match r { Tree::Inner(rl, ra, rb) => rl == l && zpick_any(*a, *ra) && (*rb == ee() || (*a == *b && *rb == *ra)), Tree::Leaf(_) => false }
            ||| (*b != ee() && zpick_any(*b, r))
        }
    }
}
/// consequences that the property states: the false function exactly for the unsatisfiable function, otherwise a cube
/// that implies the function (every member of the cube's family is a member of the function's family)
//@lemma name=lemma_zpick_any_props props=C13
pub proof fn lemma_zpick_any_props(t: Tree, r: Tree, n: int)
    requires ok(t, n), zpick_any(t, r),
    ensures ok(r, n), top(r) >= top(t), (r == ee()) <==> (t == ee()), t != ee() ==> is_cube(r),
        forall|s: Env| mem(r, s) ==> #[trigger] mem(t, s),
    decreases t,
{
    match t {
        Tree::Leaf(_) => {}
        Tree::Inner(l, a, b) => {
            let pos = match r { Tree::Inner(rl, ra, rb) => rl == l && zpick_any(*a, *ra) && (*rb == ee() || (*a == *b && *rb == *ra)), Tree::Leaf(_) => false };
            if pos {
                match r {
                    Tree::Leaf(_) => {}
                    Tree::Inner(rl, ra, rb) => {
                        lemma_zpick_any_props(*a, *ra, n);
                        assert(wf(ee()) && below(ee(), n) && top(ee()) == u32::MAX as int);
                        assert(wf(r)); assert(below(r, n));
                        assert forall|s: Env| mem(r, s) implies #[trigger] mem(t, s) by {
                            if s(l as int) { assert(mem(*ra, upd(s, l as int, false)) ==> mem(*a, upd(s, l as int, false))); }
                            else { assert(mem(*rb, s)); assert(*rb != ee()); assert(mem(*ra, s) ==> mem(*a, s)); }
                        }
                    }
                }
            } else {
                lemma_zpick_any_props(*b, r, n);
                assert forall|s: Env| mem(r, s) implies #[trigger] mem(t, s) by {
                    assert(mem(*b, s));
                    if s(l as int) { lemma_mem_above_ind(*b, s, l as int); }
                }
            }
        }
    }
}
//@lemma name=lemma_zpick_is_any props=C13
pub proof fn lemma_zpick_is_any(t: Tree, r: Tree)
    requires zpick_ok(t, r),
    ensures zpick_any(t, r),
    decreases t,
{
    match t {
        Tree::Leaf(_) => {}
        Tree::Inner(l, a, b) => {
            match r { Tree::Inner(rl, ra, rb) => { if rl == l && zpick_ok(*a, *ra) { lemma_zpick_is_any(*a, *ra); } } Tree::Leaf(_) => {} }
            if zpick_ok(*b, r) { lemma_zpick_is_any(*b, r); }
        }
    }
}
//@lemma name=lemma_zpick_set_is_any props=C13
pub proof fn lemma_zpick_set_is_any(t: Tree, ls: Tree, r: Tree)
    requires zpick_set_ok(t, ls, r),
    ensures zpick_any(t, r),
    decreases t,
{
    match t {
        Tree::Leaf(_) => {}
        Tree::Inner(l, a, b) => {
            match r { Tree::Inner(rl, ra, rb) => { if rl == l && zpick_set_ok(*a, ls, *ra) { lemma_zpick_set_is_any(*a, ls, *ra); } } Tree::Leaf(_) => {} }
            if zpick_set_ok(*b, ls, r) { lemma_zpick_set_is_any(*b, ls, r); }
        }
    }
}
pub broadcast proof fn lemma_zpick_ok_mk(l: u32, a: Tree, b: Tree, r: Tree)
    ensures #[trigger] zpick_ok(mk(l, a, b), r) == ({
        ||| match r { Tree::Inner(rl, ra, rb) => rl == l && zpick_ok(a, *ra) && (if a == b { *rb == *ra } else { *rb == ee() }), Tree::Leaf(_) => false }
        ||| (a != b && b != ee() && zpick_ok(b, r))
    }),
{}
pub broadcast proof fn lemma_zpick_ok_leaf(c: bool, r: Tree)
    ensures #[trigger] zpick_ok(Tree::Leaf(c), r) == (r == Tree::Leaf(c)),
{}
pub broadcast proof fn lemma_zpick_ok_ok(t: Tree, r: Tree, n: int)
    requires wf(t), #[trigger] below(t, n), #[trigger] zpick_ok(t, r),
    ensures ok(r, n), top(r) >= top(t), (r == ee()) <==> (t == ee()),
{
    lemma_zpick_is_any(t, r);
    lemma_zpick_any_props(t, r, n);
}
pub broadcast proof fn lemma_zpick_set_ok_mk(l: u32, a: Tree, b: Tree, ls: Tree, r: Tree)
    ensures #[trigger] zpick_set_ok(mk(l, a, b), ls, r) == ({
        let lit = cube_lit(ls, l as int);
        let forced = b == ee();
        ||| match r { Tree::Inner(rl, ra, rb) => rl == l && zpick_set_ok(a, ls, *ra)
                && (if !forced && lit == Lit::DC && a == b { *rb == *ra } else { *rb == ee() })
                && (forced || lit != Lit::Neg), Tree::Leaf(_) => false }
        ||| (!forced && lit != Lit::Pos && !(lit == Lit::DC && a == b) && zpick_set_ok(b, ls, r))
    }),
{}
pub broadcast proof fn lemma_zpick_set_ok_leaf(c: bool, ls: Tree, r: Tree)
    ensures #[trigger] zpick_set_ok(Tree::Leaf(c), ls, r) == (r == Tree::Leaf(c)),
{}
pub broadcast proof fn lemma_zpick_set_ok_ok(t: Tree, ls: Tree, r: Tree, n: int)
    requires wf(t), #[trigger] below(t, n), #[trigger] zpick_set_ok(t, ls, r),
    ensures ok(r, n), top(r) >= top(t), (r == ee()) <==> (t == ee()),
{
    lemma_zpick_set_is_any(t, ls, r);
    lemma_zpick_any_props(t, r, n);
}
/// literal sets: dropping the literals above level `until` (following the hi-child, the rest of the cube)
pub open spec fn zpopped(ls: Tree, until: int) -> Tree decreases ls {
    match ls {
        Tree::Leaf(_) => ls,
        Tree::Inner(k, a, _) => if (k as int) >= until { ls } else { zpopped(*a, until) },
    }
}
pub proof fn lemma_cube_lit_zpopped(ls: Tree, until: int, l: int)
    requires l >= until, wf(ls),
    ensures cube_lit(zpopped(ls, until), l) == cube_lit(ls, l),
    decreases ls,
{
    match ls {
        Tree::Leaf(_) => {}
        Tree::Inner(k, a, b) => { if (k as int) < until { lemma_cube_lit_zpopped(*a, until, l); } }
    }
}
/// the literal set may be replaced by any set that agrees on all levels the diagram can still visit
pub proof fn lemma_zpick_set_transfer(t: Tree, ls1: Tree, ls2: Tree, r: Tree)
    requires wf(t), zpick_set_ok(t, ls1, r), forall|l: int| l >= top(t) ==> #[trigger] cube_lit(ls1, l) == cube_lit(ls2, l),
    ensures zpick_set_ok(t, ls2, r),
    decreases t,
{
    match t {
        Tree::Leaf(_) => {}
        Tree::Inner(l, a, b) => {
            assert(cube_lit(ls1, l as int) == cube_lit(ls2, l as int));
            match r { Tree::Inner(rl, ra, rb) => { if rl == l && zpick_set_ok(*a, ls1, *ra) { lemma_zpick_set_transfer(*a, ls1, ls2, *ra); } } Tree::Leaf(_) => {} }
            if zpick_set_ok(*b, ls1, r) { lemma_zpick_set_transfer(*b, ls1, ls2, r); }
        }
    }
}
/// one recursion step: the callee saw the literal set popped to some level `u <= top(t)`
pub broadcast proof fn lemma_zpick_set_zpopped(t: Tree, ls: Tree, u: int, r: Tree)
    requires wf(t), wf(ls), u <= top(t), #[trigger] zpick_set_ok(t, zpopped(ls, u), r),
    ensures zpick_set_ok(t, ls, r),
{
    assert forall|l: int| l >= top(t) implies #[trigger] cube_lit(zpopped(ls, u), l) == cube_lit(ls, l) by { lemma_cube_lit_zpopped(ls, u, l); }
    lemma_zpick_set_transfer(t, zpopped(ls, u), ls, r);
}
pub broadcast proof fn lemma_zpopped_mk(k: u32, a: Tree, b: Tree, until: int)
    ensures #[trigger] zpopped(mk(k, a, b), until) == (if (k as int) >= until { mk(k, a, b) } else { zpopped(a, until) }),
{}
pub broadcast proof fn lemma_zpopped_ok(ls: Tree, until: int, n: int)
    requires #[trigger] below(ls, n), wf(ls),
    ensures below(#[trigger] zpopped(ls, until), n), wf(zpopped(ls, until)), top(zpopped(ls, until)) >= until || zpopped(ls, until) is Leaf,
    decreases ls,
{
    match ls {
        Tree::Leaf(_) => {}
        Tree::Inner(k, a, b) => { if (k as int) < until { lemma_zpopped_ok(*a, until, n); } }
    }
}
pub broadcast proof fn lemma_cube_lit_zpopped_b(ls: Tree, until: int, l: int)
    requires l >= until, wf(ls),
    ensures cube_lit(#[trigger] zpopped(ls, until), l) == #[trigger] cube_lit(ls, l),
{
    lemma_cube_lit_zpopped(ls, until, l);
}
pub broadcast proof fn lemma_cube_lit_leaf(c: bool, l: int)
    ensures #[trigger] cube_lit(Tree::Leaf(c), l) == Lit::Neg,
{}
pub broadcast group pick_lemmas { lemma_zpick_follows_mk, lemma_zpick_follows_leaf, lemma_zpick_ok_mk, lemma_zpick_ok_leaf, lemma_zpick_ok_ok, lemma_zpick_set_ok_mk, lemma_zpick_set_ok_leaf, lemma_zpick_set_ok_ok,
    lemma_zpick_set_zpopped, lemma_zpopped_mk, lemma_zpopped_ok, lemma_cube_lit_zpopped_b, lemma_cube_lit_leaf, lemma_cube_lit_mk }

// ---------- eval (C02): the `ones` counter of eval_edge ----------
pub open spec fn sof(bits: Seq<bool>) -> Env { |i: int| 0 <= i < bits.len() && bits[i] }
/// number of set bits at indices >= from
pub open spec fn cnt(bits: Seq<bool>, from: int) -> int decreases bits.len() - from {
    if from >= bits.len() || from < 0 { 0 } else { (if bits[from] { 1int } else { 0int }) + cnt(bits, from + 1) }
}
pub open spec fn from_lv(s: Env, l: int) -> Env { |i: int| i >= l && s(i) }
/// what `eval_edge::inner` computes: all remaining ones are consumed by the nodes on the path
pub open spec fn evalp(t: Tree, bits: Seq<bool>, ones: int) -> bool {
    ones == cnt(bits, top(t)) && mem(t, from_lv(sof(bits), top(t)))
}
/// precondition of `inner`: `ones` is at least the number of set bits at the levels the diagram can still visit (no underflow)
pub open spec fn eval_pre(t: Tree, bits: Seq<bool>, ones: int) -> bool { ones >= cnt(bits, top(t)) }
pub proof fn lemma_cnt_range(bits: Seq<bool>, a: int, b: int)
    requires 0 <= a <= b,
    ensures cnt(bits, a) >= cnt(bits, b) >= 0, (cnt(bits, a) == cnt(bits, b)) <==> (forall|i: int| a <= i < b ==> !(#[trigger] sof(bits)(i))),
    decreases b - a,
{
    lemma_cnt_nonneg(bits, b);
    if a < b {
        lemma_cnt_range(bits, a + 1, b);
        if a < bits.len() {
            assert(cnt(bits, a) == (if bits[a] { 1int } else { 0int }) + cnt(bits, a + 1));
            if cnt(bits, a) == cnt(bits, b) {
                assert forall|i: int| a <= i < b implies !(#[trigger] sof(bits)(i)) by { if i == a {} }
            }
            if forall|i: int| a <= i < b ==> !(#[trigger] sof(bits)(i)) { assert(!sof(bits)(a)); }
        } else {
            lemma_cnt_beyond(bits, a); lemma_cnt_beyond(bits, b);
        }
    }
}
pub proof fn lemma_cnt_nonneg(bits: Seq<bool>, a: int)
    ensures cnt(bits, a) >= 0,
    decreases bits.len() - a,
{ if 0 <= a < bits.len() { lemma_cnt_nonneg(bits, a + 1); } }
pub proof fn lemma_cnt_beyond(bits: Seq<bool>, a: int)
    requires a >= bits.len(),
    ensures cnt(bits, a) == 0,
{}
/// skipped levels: shifting the start of the count from `top(t)` up to `l <= top(t)` changes nothing iff no bit is set in between,
/// and otherwise both sides are false
pub proof fn lemma_eval_shift(t: Tree, bits: Seq<bool>, l: int, ones: int)
    requires wf(t), 0 <= l <= top(t), ones >= cnt(bits, l),
    ensures evalp(t, bits, ones) == (ones == cnt(bits, l) && mem(t, from_lv(sof(bits), l))),
{
    let s = sof(bits);
    lemma_cnt_range(bits, l, top(t));
    if forall|i: int| l <= i < top(t) ==> !(#[trigger] sof(bits)(i)) {
        assert(from_lv(s, l) =~= from_lv(s, top(t))) by { assert forall|i: int| #[trigger] from_lv(s, l)(i) == from_lv(s, top(t))(i) by { if s(i) { assert(sof(bits)(i)); } } }
    } else {
        let i = choose|i: int| l <= i < top(t) && #[trigger] sof(bits)(i);
        assert(from_lv(s, l)(i));
        lemma_mem_above_ind(t, from_lv(s, l), i);
    }
}
pub broadcast proof fn lemma_eval_pre_mk(l: u32, hi: Tree, lo: Tree, bits: Seq<bool>, ones: int)
    requires wf(mk(l, hi, lo)), #[trigger] eval_pre(mk(l, hi, lo), bits, ones),
    ensures (if 0 <= l < bits.len() && bits[l as int] { ones >= 1 && eval_pre(hi, bits, ones - 1) } else { eval_pre(lo, bits, ones) }),
{
    let v = l as int;
    lemma_cnt_nonneg(bits, v + 1);
    if v >= bits.len() { lemma_cnt_beyond(bits, v); lemma_cnt_beyond(bits, v + 1); }
    lemma_cnt_range(bits, v + 1, top(hi));
    lemma_cnt_range(bits, v + 1, top(lo));
}
pub broadcast proof fn lemma_evalp_mk(l: u32, hi: Tree, lo: Tree, bits: Seq<bool>, ones: int)
    requires wf(mk(l, hi, lo)), eval_pre(mk(l, hi, lo), bits, ones),
    ensures #[trigger] evalp(mk(l, hi, lo), bits, ones) == (if 0 <= l < bits.len() && bits[l as int] { evalp(hi, bits, ones - 1) } else { evalp(lo, bits, ones) }),
{
    let s = sof(bits);
    let v = l as int;
    let t = mk(l, hi, lo);
    lemma_cnt_nonneg(bits, v + 1);
    assert(mem(t, from_lv(s, v)) == (if from_lv(s, v)(v) { mem(hi, upd(from_lv(s, v), v, false)) } else { mem(lo, from_lv(s, v)) }));
    if 0 <= l < bits.len() && bits[v] {
        assert(s(v));
        assert(upd(from_lv(s, v), v, false) =~= from_lv(s, v + 1));
        lemma_cnt_range(bits, v + 1, top(hi));
        lemma_eval_shift(hi, bits, v + 1, ones - 1);
    } else {
        assert(!s(v));
        assert(from_lv(s, v) =~= from_lv(s, v + 1)) by { assert forall|i: int| #[trigger] from_lv(s, v)(i) == from_lv(s, v + 1)(i) by { if i == v {} } }
        if v >= bits.len() { lemma_cnt_beyond(bits, v); lemma_cnt_beyond(bits, v + 1); }
        lemma_cnt_range(bits, v + 1, top(lo));
        lemma_eval_shift(lo, bits, v + 1, ones);
    }
}
pub broadcast proof fn lemma_evalp_leaf(b: bool, bits: Seq<bool>, ones: int)
    requires eval_pre(Tree::Leaf(b), bits, ones),
    ensures #[trigger] evalp(Tree::Leaf(b), bits, ones) == (ones == 0 && b),
{
    let s = sof(bits);
    let m = u32::MAX as int;
    lemma_cnt_nonneg(bits, m);
    if bits.len() > m { lemma_cnt_range(bits, m, bits.len() as int); lemma_cnt_beyond(bits, bits.len() as int); }
    else { lemma_cnt_beyond(bits, m); }
    if cnt(bits, m) == 0 {
        assert forall|i: int| !(#[trigger] from_lv(s, m)(i)) by { if i >= m && s(i) { assert(sof(bits)(i)); } }
    } else {
        let i = choose|i: int| m <= i < bits.len() && #[trigger] sof(bits)(i);
        assert(from_lv(s, m)(i));
    }
}
/// with `ones` = number of variables set to true (what `eval_edge` passes), `inner` decides family membership of the set of
/// true variables, i.e. evaluates the Boolean function
pub broadcast proof fn lemma_evalp_top(t: Tree, bits: Seq<bool>, ones: int)
    requires wf(t), #[trigger] eval_pre(t, bits, ones), ones == cnt(bits, 0),
    ensures evalp(t, bits, ones) == #[trigger] mem(t, sof(bits)),
{
    let s = sof(bits);
    lemma_eval_shift(t, bits, 0, ones);
    assert(from_lv(s, 0) =~= s) by { assert forall|i: int| #[trigger] from_lv(s, 0)(i) == s(i) by { if s(i) {} } }
}
pub broadcast proof fn lemma_bsem_sof(t: Tree, bits: Seq<bool>, n: int)
    requires bits.len() <= n,
    ensures #[trigger] bsem(t, n, sof(bits)) == mem(t, sof(bits)),
{
    let s = sof(bits);
    assert(set_of(s, n) =~= s) by { assert forall|i: int| #[trigger] set_of(s, n)(i) == s(i) by { if s(i) {} } }
}
pub broadcast group eval_lemmas { lemma_eval_pre_mk, lemma_evalp_mk, lemma_evalp_leaf, lemma_evalp_top, lemma_bsem_sof }

// ---------- eval (C02), outer part: the assignment denoted by the `(variable, value)` pairs, last value wins ----------
pub open spec fn all_false() -> Env { |l: int| false }
/// `base` overridden by the pairs in order; `m` maps variable numbers to levels
pub open spec fn aenv(args: Seq<(u32, bool)>, m: spec_fn(int) -> int, base: Env) -> Env decreases args.len() {
    if args.len() == 0 { base } else { upd(aenv(args.drop_last(), m, base), m(args.last().0 as int), args.last().1) }
}
pub open spec fn vl<M: Manager>(m: &M) -> spec_fn(int) -> int { |v: int| m.var_to_level_spec(v) }
/// loop invariant of `eval_edge`: one bit per level holding the assignment so far, `ones` = number of set bits
pub open spec fn zeval_inv(bits: Seq<bool>, ones: int, done: Seq<(u32, bool)>, m: spec_fn(int) -> int, n: int) -> bool {
    &&& bits.len() == n
    &&& ones == cnt(bits, 0)
    &&& forall|l: int| 0 <= l < n ==> #[trigger] bits[l] == aenv(done, m, all_false())(l)
}
pub proof fn lemma_cnt_update(bits: Seq<bool>, i: int, v: bool, from: int)
    requires 0 <= i < bits.len(), 0 <= from,
    ensures cnt(bits.update(i, v), from) == cnt(bits, from) + (if from <= i { (if v { 1int } else { 0int }) - (if bits[i] { 1int } else { 0int }) } else { 0int }),
    decreases bits.len() - from,
{
    if from < bits.len() { lemma_cnt_update(bits, i, v, from + 1); }
}
pub proof fn lemma_cnt_le(bits: Seq<bool>, from: int)
    requires 0 <= from,
    ensures 0 <= cnt(bits, from) <= (if from <= bits.len() { bits.len() - from } else { 0 }),
    decreases bits.len() - from,
{
    if from < bits.len() { lemma_cnt_le(bits, from + 1); }
}
pub broadcast proof fn lemma_zeval_init(bits: Seq<bool>, m: spec_fn(int) -> int, n: int)
    requires bits.len() == n, forall|i: int| 0 <= i < n ==> !(#[trigger] bits[i]),
    ensures #[trigger] zeval_inv(bits, 0, Seq::<(u32, bool)>::empty(), m, n),
{
    lemma_cnt_range(bits, 0, n);
    lemma_cnt_beyond(bits, n);
    assert forall|i: int| 0 <= i < n implies !(#[trigger] sof(bits)(i)) by {}
}
pub broadcast proof fn lemma_zeval_step(bits: Seq<bool>, ones: int, done: Seq<(u32, bool)>, x: (u32, bool), m: spec_fn(int) -> int, n: int)
    requires #[trigger] zeval_inv(bits, ones, done, m, n), 0 <= m(x.0 as int) < n,
    ensures
        0 <= ones <= n,
        bits[m(x.0 as int)] == x.1 ==> zeval_inv(bits, ones, #[trigger] done.push(x), m, n),
        bits[m(x.0 as int)] != x.1 ==> zeval_inv(bits.update(m(x.0 as int), x.1), ones + (if x.1 { 1int } else { -1int }), done.push(x), m, n)
            && 0 <= ones + (if x.1 { 1int } else { -1int }) <= n,
{
    let lv = m(x.0 as int);
    assert(done.push(x).drop_last() =~= done);
    assert(done.push(x).last() == x);
    assert(aenv(done.push(x), m, all_false()) == upd(aenv(done, m, all_false()), lv, x.1));
    lemma_cnt_le(bits, 0);
    if bits[lv] != x.1 {
        lemma_cnt_update(bits, lv, x.1, 0);
        lemma_cnt_le(bits.update(lv, x.1), 0);
    }
}
pub broadcast proof fn lemma_zeval_pre(t: Tree, bits: Seq<bool>, ones: int, all: Seq<(u32, bool)>, m: spec_fn(int) -> int, n: int)
    requires #[trigger] zeval_inv(bits, ones, all, m, n), wf(t),
    ensures #[trigger] eval_pre(t, bits, ones),
{
    if top(t) >= 0 { lemma_cnt_range(bits, 0, top(t)); }
}
pub broadcast proof fn lemma_zeval_post(t: Tree, bits: Seq<bool>, ones: int, all: Seq<(u32, bool)>, m: spec_fn(int) -> int, n: int)
    requires #[trigger] zeval_inv(bits, ones, all, m, n),
    ensures #[trigger] bsem(t, n, aenv(all, m, all_false())) == mem(t, sof(bits)),
{
    let e = aenv(all, m, all_false());
    assert(set_of(e, n) =~= sof(bits)) by {
        assert forall|i: int| #[trigger] set_of(e, n)(i) == sof(bits)(i) by {}
    }
}
pub broadcast group zeval_lemmas { lemma_zeval_init, lemma_zeval_step, lemma_zeval_pre, lemma_zeval_post }
/// the reading of a cube used above is the documented one: the ZBDD `c` (over the n variables of the manager) denotes
/// exactly the conjunction of its literals
pub open spec fn lit_holds(c: Tree, l: int, env: Env) -> bool {
    match cube_lit(c, l) { Lit::Neg => !env(l), Lit::Pos => env(l), Lit::DC => true }
}
pub proof fn lemma_cube_conj_ind(c: Tree, from: int, n: int, env: Env)
    requires ok(c, n), is_cube(c), 0 <= from <= top(c),
    ensures mem(c, from_lv(set_of(env, n), from)) == (forall|l: int| from <= l < n ==> #[trigger] lit_holds(c, l, env)),
    decreases c,
{
    let s = from_lv(set_of(env, n), from);
    match c {
        Tree::Leaf(_) => {
            if is_empty_set(s) { assert forall|l: int| from <= l < n implies #[trigger] lit_holds(c, l, env) by { assert(!s(l)); } }
            if forall|l: int| from <= l < n ==> #[trigger] lit_holds(c, l, env) {
                assert forall|i: int| !(#[trigger] s(i)) by { if s(i) { assert(lit_holds(c, i, env)); } }
            }
        }
        Tree::Inner(k, a, b) => {
            let kk = k as int;
            let sk = from_lv(set_of(env, n), kk + 1);
            lemma_cube_conj_ind(*a, kk + 1, n, env);
            assert forall|l: int| l > kk implies lit_holds(c, l, env) == lit_holds(*a, l, env) by {}
            if exists|l: int| from <= l < kk && #[trigger] env(l) {
                let l = choose|l: int| from <= l < kk && #[trigger] env(l);
                assert(s(l)); lemma_mem_above_ind(c, s, l);
                assert(!lit_holds(c, l, env));
            } else {
                assert(forall|l: int| from <= l < kk ==> #[trigger] lit_holds(c, l, env));
                if env(kk) {
                    assert(s(kk));
                    assert(upd(s, kk, false) =~= sk) by { assert forall|i: int| #[trigger] upd(s, kk, false)(i) == sk(i) by { if from <= i < kk { assert(!env(i)); } } }
                    assert(lit_holds(c, kk, env));
                } else {
                    assert(!s(kk));
                    assert(s =~= sk) by { assert forall|i: int| #[trigger] s(i) == sk(i) by { if from <= i < kk { assert(!env(i)); } } }
                    if *a == *b { assert(lit_holds(c, kk, env)); } else { assert(!lit_holds(c, kk, env)); assert(*b == ee()); assert(!mem(ee(), s)); }
                }
                assert((forall|l: int| from <= l < n ==> #[trigger] lit_holds(c, l, env)) == (lit_holds(c, kk, env) && forall|l: int| kk + 1 <= l < n ==> #[trigger] lit_holds(*a, l, env))) by {
                    if forall|l: int| from <= l < n ==> #[trigger] lit_holds(c, l, env) {
                        assert(lit_holds(c, kk, env));
                        assert forall|l: int| kk + 1 <= l < n implies #[trigger] lit_holds(*a, l, env) by { assert(lit_holds(c, l, env)); }
                    }
                    if lit_holds(c, kk, env) && forall|l: int| kk + 1 <= l < n ==> #[trigger] lit_holds(*a, l, env) {
                        assert forall|l: int| from <= l < n implies #[trigger] lit_holds(c, l, env) by { if l > kk { assert(lit_holds(*a, l, env)); } }
                    }
                }
            }
        }
    }
}
//@lemma name=cube_is_conjunction props=C04,C13
pub proof fn cube_is_conjunction(c: Tree, n: int, env: Env)
    requires ok(c, n), is_cube(c), 0 <= n,
    ensures bsem(c, n, env) == (forall|l: int| 0 <= l < n ==> #[trigger] lit_holds(c, l, env)),
{
    lemma_cube_conj_ind(c, 0, n, env);
    assert(from_lv(set_of(env, n), 0) =~= set_of(env, n)) by { assert forall|i: int| #[trigger] from_lv(set_of(env, n), 0)(i) == set_of(env, n)(i) by {} }
}

/// The contract ASSUMED for the nested `restrict_base` (its `for` loop cannot be given an invariant) is satisfiable: the
/// following model of its result meets it.  (Guards against a vacuous assumption; it does not verify the loop.)
pub open spec fn dc_chain(from: int, to: int, r: Tree) -> Tree decreases to - from {
    if 0 <= from < to <= u32::MAX { mk(from as u32, dc_chain(from + 1, to, r), dc_chain(from + 1, to, r)) } else { r }
}
/// the ZBDD of the Boolean function "variable on level l" over n levels: don't-care chain above, node (l, 2^{l+1..n}, ∅)
pub open spec fn var_tree(l: int, n: int) -> Tree { dc_chain(0, l, mk(l as u32, taut_tree(l + 1, n), ee())) }
/// one unfolding step.  Both chain terms must already exist (two-term trigger): triggering on `dc_chain(from, ..)` alone creates
/// `dc_chain(from + 1, ..)`, which triggers the lemma again - a matching loop that made z3 spin on FAILING proofs (seed C02-C02b-1
/// went from "refuted in 50 s" to a timeout)
pub broadcast proof fn lemma_dc_chain_step(from: int, from1: int, to: int, r: Tree)
    requires 0 <= from < to <= u32::MAX, from1 == from + 1,
    ensures #[trigger] dc_chain(from, to, r) == mk(from as u32, #[trigger] dc_chain(from1, to, r), dc_chain(from1, to, r)),
{}
pub broadcast proof fn lemma_dc_chain_base(to: int, r: Tree)
    ensures #[trigger] dc_chain(to, to, r) == r,
{}
pub broadcast group chain_lemmas { lemma_dc_chain_step, lemma_dc_chain_base }
pub open spec fn rb_model(c: Tree, level: int, n: int) -> Tree decreases c {
    match c {
        Tree::Leaf(_) => taut_tree(level, n),
        Tree::Inner(k, a, b) => if *a != *b { ee() } else {
            let r = rb_model(*a, k as int + 1, n);
            if r == ee() { ee() } else { dc_chain(level, k as int, r) }
        },
    }
}
pub open spec fn cleared(s: Env, from: int, to: int) -> Env { |l: int| if from <= l < to { false } else { s(l) } }
pub proof fn lemma_dc_chain(from: int, to: int, r: Tree, n: int, s: Env)
    requires 0 <= from <= to <= n <= u32::MAX, ok(r, n), top(r) >= to, r != ee(),
    ensures ok(dc_chain(from, to, r), n), top(dc_chain(from, to, r)) >= from, dc_chain(from, to, r) != ee(),
        mem(dc_chain(from, to, r), s) == mem(r, cleared(s, from, to)),
    decreases to - from,
{
    if from < to {
        let d = dc_chain(from + 1, to, r);
        lemma_dc_chain(from + 1, to, r, n, s);
        lemma_dc_chain(from + 1, to, r, n, upd(s, from, false));
        assert(mem(dc_chain(from, to, r), s) == (if s(from) { mem(d, upd(s, from, false)) } else { mem(d, s) }));
        assert(cleared(upd(s, from, false), from + 1, to) =~= cleared(s, from, to));
        if !s(from) { assert(cleared(s, from + 1, to) =~= cleared(s, from, to)); }
    } else {
        assert(cleared(s, from, to) =~= s);
    }
}
//@lemma name=var_tree_is_variable props=C02
pub proof fn var_tree_is_variable(l: int, n: int)
    requires 0 <= l < n < u32::MAX,
    ensures ok(var_tree(l, n), n), forall|env: Env| #[trigger] bsem(var_tree(l, n), n, env) == env(l),
{
    let t = taut_tree(l + 1, n);
    let base = mk(l as u32, t, ee());
    lemma_taut_ok_ind(l + 1, n);
    assert(below(ee(), n));
    assert(wf(t) && below(t, n) && top(t) >= l + 1 && t != ee());
    assert(wf(ee()));
    assert(wf(base));
    assert(below(base, n));
    assert(top(base) >= l && base != ee());
    assert forall|env: Env| #[trigger] bsem(var_tree(l, n), n, env) == env(l) by {
        let s = set_of(env, n);
        lemma_dc_chain(0, l, base, n, s);
        let c = cleared(s, 0, l);
        let c2 = upd(c, l, false);
        lemma_mem_taut_ind(l + 1, n, c2);
        assert(mem(base, c) == (if c(l) { mem(t, c2) } else { mem(ee(), c) }));
        assert(!mem(ee(), c));
        assert(c(l) == env(l));
        assert(within(c2, l + 1, n)) by {
            assert forall|i: int| (#[trigger] c2(i)) implies l + 1 <= i < n by { assert(c(i)); assert(s(i)); }
        }
    }
    lemma_dc_chain(0, l, base, n, set_of(|i: int| false, n));
}
pub broadcast proof fn lemma_rb_model_mk(k: u32, a: Tree, b: Tree, level: int, n: int)
    ensures #[trigger] rb_model(mk(k, a, b), level, n) == (if a != b { ee() } else {
        let r = rb_model(a, k as int + 1, n);
        if r == ee() { ee() } else { dc_chain(level, k as int, r) } }),
{}
pub broadcast proof fn lemma_rb_model_leaf(b: bool, level: int, n: int)
    ensures #[trigger] rb_model(Tree::Leaf(b), level, n) == taut_tree(level, n),
{}
//@lemma name=restrict_base_contract_satisfiable props=C04
pub proof fn restrict_base_contract_satisfiable(c: Tree, level: int, n: int)
    requires ok(c, n), is_cube(c), 0 <= level <= top(c), level <= n <= u32::MAX,
    ensures restrict_post(bb(), c, level, n, rb_model(c, level, n)),
    decreases c,
{
    let r = rb_model(c, level, n);
    match c {
        Tree::Leaf(_) => {
            lemma_taut_ok_ind(level, n);
            assert forall|s: Env| #[trigger] mem(r, s) == mem(bb(), cenv(c, level, n, s)) by {
                lemma_mem_taut_ind(level, n, s);
                let x = cenv(c, level, n, s);
                if within(s, level, n) { assert forall|i: int| !(#[trigger] x(i)) by { if s(i) {} } }
                if is_empty_set(x) { assert forall|i: int| (#[trigger] s(i)) implies level <= i < n by { assert(!x(i)); } }
            }
        }
        Tree::Inner(k, a, b) => {
            let kk = k as int;
            if *a != *b {
                assert forall|s: Env| #[trigger] mem(r, s) == mem(bb(), cenv(c, level, n, s)) by { assert(cenv(c, level, n, s)(kk)); }
            } else {
                let r1 = rb_model(*a, kk + 1, n);
                restrict_base_contract_satisfiable(*a, kk + 1, n);
                assert forall|l: int| l > kk implies cube_lit(c, l) == cube_lit(*a, l) by {}
                if r1 == ee() {
                    assert forall|s: Env| #[trigger] mem(r, s) == mem(bb(), cenv(c, level, n, s)) by {
                        let s1 = cleared(s, level, kk + 1);
                        let x = cenv(c, level, n, s);
                        let y = cenv(*a, kk + 1, n, s1);
                        assert(mem(r1, s1) == mem(bb(), y));
                        if is_empty_set(x) { assert forall|i: int| !(#[trigger] y(i)) by { assert(!x(i)); } }
                    }
                } else {
                    assert forall|s: Env| #[trigger] mem(r, s) == mem(bb(), cenv(c, level, n, s)) by {
                        lemma_dc_chain(level, kk, r1, n, s);
                        let s1 = cleared(s, level, kk);
                        assert(mem(r1, s1) == mem(bb(), cenv(*a, kk + 1, n, s1)));
                        assert(cenv(*a, kk + 1, n, s1) =~= cenv(c, level, n, s));
                    }
                    lemma_dc_chain(level, kk, r1, n, |i: int| false);
                }
            }
        }
    }
}
pub broadcast proof fn lemma_rb_model_post(c: Tree, level: int, n: int)
    requires ok(c, n), is_cube(c), 0 <= level <= top(c), level <= n <= u32::MAX,
    ensures #[trigger] restrict_post(bb(), c, level, n, rb_model(c, level, n)),
{ restrict_base_contract_satisfiable(c, level, n); }
pub broadcast group rb_lemmas { lemma_rb_model_mk, lemma_rb_model_leaf, lemma_rb_model_post, lemma_dc_chain_step, lemma_dc_chain_base }

// ---------- model counting (C12, ZBDD part) ----------
pub open spec fn pow2(k: nat) -> int decreases k { if k == 0 { 1 } else { 2 * pow2((k - 1) as nat) } }
/// abstract numeric value of a count
pub trait NumView { spec fn nv(&self) -> int; }
pub trait IsFloatingPoint { const MIN_EXP: i32; }
pub trait SatCountNumber: Clone + From<u32> + std::ops::Add<Self, Output = Self> + std::ops::Shl<u32, Output = Self> + std::ops::Shr<u32, Output = Self> + IsFloatingPoint + NumView {}
/// ASSUMED model of the number type: exact naturals, `>> k` is floor division by 2^k, `<< k` multiplication
/// (same model as in bdd_simple.rs.tpl)
pub open spec fn num_ok<N: SatCountNumber>() -> bool {
    &&& N::obeys_add_spec()
    &&& forall|a: N, b: N| #[trigger] a.add_req(b)
    &&& forall|a: N, b: N| (#[trigger] a.add_spec(b)).nv() == a.nv() + b.nv()
    &&& <N as ShrSpec<u32>>::obeys_shr_spec()
    &&& forall|a: N, k: u32| #[trigger] a.shr_req(k)
    &&& forall|a: N, k: u32| (#[trigger] a.shr_spec(k)).nv() == a.nv() / pow2(k as nat)
    &&& <N as ShlSpec<u32>>::obeys_shl_spec()
    &&& forall|a: N, k: u32| #[trigger] a.shl_req(k)
    &&& forall|a: N, k: u32| (#[trigger] a.shl_spec(k)).nv() == a.nv() * pow2(k as nat)
    &&& <N as FromSpec<u32>>::obeys_from_spec()
    &&& forall|v: u32| (#[trigger] <N as FromSpec<u32>>::from_spec(v)).nv() == v as int
    &&& forall|a: N, b: N| cloned(a, b) ==> #[trigger] a.nv() == #[trigger] b.nv()
}
/// what the recursion computes: the number of member sets (paths to Base)
pub open spec fn zcnt(t: Tree) -> int decreases t {
    match t {
        Tree::Leaf(b) => if b { 1 } else { 0 },
        Tree::Inner(_, a, b) => zcnt(*a) + zcnt(*b),
    }
}
pub broadcast proof fn lemma_zcnt_mk(l: u32, a: Tree, b: Tree)
    ensures #[trigger] zcnt(mk(l, a, b)) == zcnt(a) + zcnt(b) {}
pub open spec fn then_of(t: Tree) -> Tree { match t { Tree::Inner(_, a, _) => *a, _ => t } }
pub open spec fn else_of(t: Tree) -> Tree { match t { Tree::Inner(_, _, b) => *b, _ => t } }
/// number of assignments to the variables k..n-1 that satisfy `t` in the ZBDD reading (all levels of `t` are >= k), by
/// expansion on every variable: a variable without a node must be false
pub open spec fn zmodels(t: Tree, k: int, n: int) -> int decreases n - k {
    if k >= n { if t == Tree::Leaf(true) { 1 } else { 0 } }
    else if t is Inner && top(t) == k { zmodels(then_of(t), k + 1, n) + zmodels(else_of(t), k + 1, n) }
    else { zmodels(t, k + 1, n) }
}
//@lemma name=lemma_zcnt_is_count props=C12
pub proof fn lemma_zcnt_is_count(t: Tree, k: int, n: int)
    requires ok(t, n), 0 <= k <= n <= u32::MAX, k <= top(t),
    ensures zcnt(t) == zmodels(t, k, n),
    decreases n - k,
{
    if k >= n { assert(t is Leaf); }
    else if t is Inner && top(t) == k { lemma_zcnt_is_count(then_of(t), k + 1, n); lemma_zcnt_is_count(else_of(t), k + 1, n); }
    else { lemma_zcnt_is_count(t, k + 1, n); }
}
pub broadcast proof fn lemma_zmodels_zcnt(t: Tree, n: int)
    requires wf(t), below(t, n), 0 <= n <= u32::MAX,
    ensures #[trigger] zmodels(t, 0, n) == zcnt(t),
{ lemma_zcnt_is_count(t, 0, n); }
pub broadcast group count_lemmas { lemma_zcnt_mk, lemma_zmodels_zcnt }
pub type NodeID = usize;
/// the diagram stored under a node id (ASSUMED: a node id denotes one diagram within a GC epoch; the cache is cleared
/// by `clear_if_invalid` when the epoch or the variable count changes)
pub uninterp spec fn tree_of(id: NodeID) -> Tree;
/// stub of the HashMap inside SatCountCache
pub struct NodeMap<N> { pub m: Ghost<Map<NodeID, N>> }
impl<N> NodeMap<N> {
    pub open spec fn view(&self) -> Map<NodeID, N> { self.m@ }
    #[verifier::external_body]
    pub fn get(&self, k: &NodeID) -> (r: Option<&N>)
        ensures match r { Some(v) => self@.contains_key(*k) && *v == self@[*k], None => !self@.contains_key(*k) }
    { unimplemented!() }
    #[verifier::external_body]
    pub fn insert(&mut self, k: NodeID, v: N) -> (r: Option<N>)
        ensures final(self)@ == old(self)@.insert(k, v)
    { unimplemented!() }
}
pub struct SatCountCache<N, S> { pub map: NodeMap<N>, pub cache_all: bool, pub s: Ghost<S> }
impl<N: SatCountNumber, S> SatCountCache<N, S> {
    /// ASSUMED (history): the cache is emptied when the GC epoch or the variable count changed; otherwise its entries were
    /// computed in this epoch
    #[verifier::external_body]
    pub fn clear_if_invalid<M: Manager>(&mut self, manager: &M, vars: LevelNo)
        ensures cache_valid(final(self)), final(self).cache_all == old(self).cache_all,
    { unimplemented!() }
}
pub open spec fn cache_valid<N: SatCountNumber, S>(c: &SatCountCache<N, S>) -> bool {
    forall|id: NodeID| #[trigger] c.map@.contains_key(id) ==> c.map@[id].nv() == zcnt(tree_of(id))
}

// ---------- environment stubs (ASSUMED manager contract) ----------
pub type LevelNo = u32;
pub type VarNo = u32;
#[derive(Debug)]
pub struct OutOfMemory;
pub type AllocResult<T> = Result<T, OutOfMemory>;
pub type Borrowed<'a, E> = &'a E;

pub trait Edge: Sized + Ord {
    type Tag: Copy + Default;
    spec fn view(&self) -> Tree;
    fn borrowed(&self) -> (r: Borrowed<'_, Self>) ensures r.view() == self.view();
    /// ZBDD edges carry no semantic tag
    fn with_tag_owned(self, tag: Self::Tag) -> (r: Self) ensures r.view() == self.view();
    fn node_id(&self) -> (r: NodeID) ensures self.view() is Inner ==> tree_of(r) == self.view();
}
pub trait LevelSpec { spec fn level_spec(&self) -> u32; }
pub trait InnerNode<E: Edge>: Sized + LevelSpec {
    spec fn then_spec(&self) -> Tree;
    spec fn else_spec(&self) -> Tree;
    fn new(level: LevelNo, children: [E; 2]) -> (r: Self)
        ensures r.level_spec() == level, r.then_spec() == children[0].view(), r.else_spec() == children[1].view();
    fn child(&self, n: usize) -> (r: Borrowed<'_, E>)
        requires n < 2
        ensures r.view() == (if n == 0 { self.then_spec() } else { self.else_spec() });
    fn ref_count(&self) -> usize;
}
pub trait HasLevel: LevelSpec {
    fn level(&self) -> (l: LevelNo) ensures l == self.level_spec();
}
pub assume_specification<T: ?Sized> [<T as std::borrow::Borrow<T>>::borrow] (x: &T) -> (r: &T)
    ensures r == x;
pub assume_specification<T: Ord> [std::cmp::min] (a: T, b: T) -> (r: T)
    ensures T::obeys_cmp_spec() ==> r == (if b.cmp_spec(&a) == core::cmp::Ordering::Less { b } else { a });

/// hash-consing: handles are equal iff they denote the same stored diagram
pub open spec fn edge_ok<E: Edge>() -> bool {
    &&& E::obeys_eq_spec()
    &&& E::obeys_partial_cmp_spec()
    &&& forall|a: E, b: E| (#[trigger] a.eq_spec(&b)) <==> (a.view() == b.view())
}
pub trait TermView { spec fn tview(&self) -> bool; }
pub enum Node<'a, M: Manager + 'a> {
    Inner(&'a M::InnerNode),
    Terminal(&'a M::Terminal),
}
impl<'a, M: Manager> Clone for Node<'a, M> { fn clone(&self) -> (r: Self) ensures r == *self { *self } }
impl<'a, M: Manager> Copy for Node<'a, M> {}
impl<'a, M: Manager> Node<'a, M> {
    pub fn unwrap_inner(self) -> (r: &'a M::InnerNode)
        requires self is Inner
        ensures self == Node::<'a, M>::Inner(r)
    { match self { Node::Inner(node) => node, Node::Terminal(_) => vstd::pervasive::unreached() } }
    /// panics on terminals: the panic-freedom obligation is `self is Inner`
    pub fn expect_inner(self, msg: &str) -> (r: &'a M::InnerNode)
        requires self is Inner
        ensures self == Node::<'a, M>::Inner(r)
    { match self { Node::Inner(node) => node, Node::Terminal(_) => vstd::pervasive::unreached() } }
    pub fn is_any_terminal(self) -> (r: bool) ensures r == (self is Terminal)
    { match self { Node::Inner(_) => false, Node::Terminal(_) => true } }
    #[verifier::external_body]
    pub fn is_terminal(self, terminal: &M::Terminal) -> (r: bool)
        ensures r == (self is Terminal && self->Terminal_0.tview() == terminal.tview())
    { unimplemented!() }
}
impl<'a, M: Manager> Node<'a, M> where M::InnerNode: HasLevel {
    pub fn level(self) -> (r: LevelNo)
        ensures r == (match self { Node::Inner(node) => node.level_spec(), Node::Terminal(_) => u32::MAX })
    { match self { Node::Inner(node) => node.level(), Node::Terminal(_) => LevelNo::MAX } }
}
/// stub of fixedbitset::FixedBitSet (only `contains` is used by verified code)
pub struct FixedBitSet { pub bits: Vec<bool> }
impl FixedBitSet {
    pub open spec fn spec_contains(&self, i: int) -> bool { 0 <= i < self.bits@.len() && self.bits@[i] }
    pub fn contains(&self, bit: usize) -> (r: bool) ensures r == self.spec_contains(bit as int)
    { if bit < self.bits.len() { self.bits[bit] } else { false } }
    /// ASSUMED (fixedbitset docs): a new set of `bits` bits, all clear
    #[verifier::external_body]
    pub fn with_capacity(bits: usize) -> (r: Self)
        ensures r.bits@.len() == bits, forall|i: int| 0 <= i < bits ==> !(#[trigger] r.bits@[i])
    { unimplemented!() }
    /// ASSUMED (fixedbitset docs): sets bit `bit` to `enabled`; panics if `bit` is out of bounds
    #[verifier::external_body]
    pub fn set(&mut self, bit: usize, enabled: bool)
        requires bit < old(self).bits@.len(),
        ensures final(self).bits@ == old(self).bits@.update(bit as int, enabled),
    { unimplemented!() }
}
/// stub of the `impl IntoIterator<Item = (VarNo, bool)>` argument of `eval_edge` (rule R10): `all()` is the sequence it
/// yields, `done()` the prefix yielded so far (ASSUMED: std Iterator protocol)
pub struct ArgIter { pub all: Ghost<Seq<(u32, bool)>>, pub done: Ghost<Seq<(u32, bool)>> }
impl ArgIter {
    pub open spec fn all(&self) -> Seq<(u32, bool)> { self.all@ }
    pub open spec fn done(&self) -> Seq<(u32, bool)> { self.done@ }
    #[verifier::external_body]
    pub fn next(&mut self) -> (r: Option<(VarNo, bool)>)
        ensures final(self).all() == old(self).all(),
            r is None ==> old(self).done() == old(self).all() && final(self).done() == old(self).done(),
            r is Some ==> old(self).done().len() < old(self).all().len() && r->Some_0 == old(self).all()[old(self).done().len() as int]
                && final(self).done() == old(self).done().push(r->Some_0),
    { unimplemented!() }
}
pub trait LevelView<E: Edge, N: InnerNode<E>> {
    spec fn level_no_spec(&self) -> u32;
    fn level_no(&self) -> (r: LevelNo) ensures r == self.level_no_spec();
    fn get_or_insert(&mut self, node: N) -> (r: AllocResult<E>)
        requires node.level_spec() == old(self).level_no_spec(),
        ensures r is Ok ==> r->Ok_0.view() == mk(node.level_spec(), node.then_spec(), node.else_spec()),
            final(self).level_no_spec() == old(self).level_no_spec();
}
/// stub of `(lo..hi).rev()` over u32 (rule R17; ASSUMED: std semantics — yields hi-1, hi-2, .., lo)
pub struct RevRange { pub lo: u32, pub cur: u32 }
pub fn rev_range(lo: u32, hi: u32) -> (r: RevRange) ensures r.lo == lo, r.cur == (if hi >= lo { hi } else { lo }) { RevRange { lo, cur: if hi >= lo { hi } else { lo } } }
impl RevRange {
    pub fn next(&mut self) -> (r: Option<u32>)
        requires old(self).lo <= old(self).cur,
        ensures final(self).lo == old(self).lo,
            old(self).cur > old(self).lo ==> r == Some((old(self).cur - 1) as u32) && final(self).cur == old(self).cur - 1,
            old(self).cur <= old(self).lo ==> r is None && final(self).cur == old(self).cur,
    { if self.cur > self.lo { self.cur = self.cur - 1; Some(self.cur) } else { None } }
}
/// stub of the iterator returned by `Manager::levels()` and of the std adapters `rev` / `skip` / `take` applied to it
/// (ASSUMED: std semantics of DoubleEndedIterator::rev, Iterator::skip, Iterator::take, stated over the ghost sequence
/// `rem()` of the level numbers still to be yielded; `levels()` yields the level views top-down, 0..num_levels).
/// Inherent methods take precedence over the `Iterator` trait's provided methods, so the real call text is unchanged.
pub struct LevelIter<E: Edge, N: InnerNode<E>, V: LevelView<E, N>> { pub rem: Ghost<Seq<u32>>, pub p: std::marker::PhantomData<(E, N, V)> }
impl<E: Edge, N: InnerNode<E>, V: LevelView<E, N>> LevelIter<E, N, V> {
    pub open spec fn rem(&self) -> Seq<u32> { self.rem@ }
    #[verifier::external_body]
    pub fn rev(self) -> (r: Self) ensures r.rem() == self.rem().reverse() { unimplemented!() }
    #[verifier::external_body]
    pub fn skip(self, n: usize) -> (r: Self)
        ensures r.rem() == (if n <= self.rem().len() { self.rem().skip(n as int) } else { Seq::<u32>::empty() })
    { unimplemented!() }
    #[verifier::external_body]
    pub fn take(self, n: usize) -> (r: Self)
        ensures r.rem() == (if n <= self.rem().len() { self.rem().take(n as int) } else { self.rem() })
    { unimplemented!() }
    #[verifier::external_body]
    pub fn next(&mut self) -> (r: Option<V>)
        ensures old(self).rem().len() == 0 ==> r is None && final(self).rem() == old(self).rem(),
            old(self).rem().len() > 0 ==> r is Some && r->Some_0.level_no_spec() == old(self).rem()[0] && final(self).rem() == old(self).rem().skip(1),
    { unimplemented!() }
}
pub trait Manager: Sized {
    type Edge: Edge;
    type InnerNode: InnerNode<Self::Edge>;
    type Terminal: TermView;
    type LevelView<'a>: LevelView<Self::Edge, Self::InnerNode> where Self: 'a;
    spec fn num_levels_spec(&self) -> int;
    spec fn var_to_level_spec(&self, v: int) -> int;
    fn get_node<'a>(&'a self, e: &'a Self::Edge) -> (n: Node<'a, Self>)
        ensures match n {
            Node::Inner(node) => e.view() == mk(node.level_spec(), node.then_spec(), node.else_spec()),
            Node::Terminal(t) => e.view() == Tree::Leaf(t.tview()),
        };
    fn clone_edge(&self, e: &Self::Edge) -> (r: Self::Edge) ensures r.view() == e.view();
    fn drop_edge(&self, e: Self::Edge);
    fn get_terminal(&self, t: Self::Terminal) -> (r: AllocResult<Self::Edge>)
        ensures r is Ok, r->Ok_0.view() == Tree::Leaf(t.tview());
    fn num_levels(&self) -> (n: LevelNo) ensures n as int == self.num_levels_spec();
    fn level(&self, no: LevelNo) -> (r: Self::LevelView<'_>)
        requires (no as int) < self.num_levels_spec()
        ensures r.level_no_spec() == no;
    fn levels(&self) -> (r: LevelIter<Self::Edge, Self::InnerNode, Self::LevelView<'_>>)
        ensures r.rem() == Seq::new(self.num_levels_spec() as nat, |i: int| i as u32);
    fn var_to_level(&self, var: VarNo) -> (l: LevelNo)
        requires (var as int) < self.num_levels_spec()
        ensures l as int == self.var_to_level_spec(var as int), (l as int) < self.num_levels_spec() <= u32::MAX as int;
    spec fn level_to_var_spec(&self, l: int) -> int;
    fn level_to_var(&self, level: LevelNo) -> (v: VarNo)
        requires (level as int) < self.num_levels_spec()
        ensures v as int == self.level_to_var_spec(level as int), (v as int) < self.num_levels_spec();
}
pub mod oxidd_core {
    pub use super::LevelView;
    pub use super::VarNo;
    pub use super::Node;
}

/// `Function::as_edge(manager)` / `Function::from_edge(manager, e)`: a function handle is modelled by its root edge
pub trait AsEdgeExt: Sized { fn as_edge<M>(&self, manager: &M) -> (r: &Self) ensures r == self { self } }
impl<E: Edge> AsEdgeExt for E {}
pub fn from_edge<M: Manager>(manager: &M, e: M::Edge) -> (r: M::Edge) ensures r.view() == e.view() { e }
pub struct EdgeDropGuard<'a, M: Manager> { pub manager: &'a M, pub edge: M::Edge }
impl<'a, M: Manager> EdgeDropGuard<'a, M> {
    pub fn new(manager: &'a M, edge: M::Edge) -> (r: Self) ensures r.edge.view() == edge.view() { EdgeDropGuard { manager, edge } }
    pub fn into_edge(self) -> (r: M::Edge) ensures r.view() == self.edge.view() { self.edge }
    pub fn borrowed(&self) -> (r: Borrowed<'_, M::Edge>) ensures r.view() == self.edge.view() { &self.edge }
}
impl<'a, M: Manager> std::ops::Deref for EdgeDropGuard<'a, M> {
    type Target = M::Edge;
    fn deref(&self) -> (r: &M::Edge) ensures r.view() == self.edge.view() { &self.edge }
}
/// the meaning of a cache key; `m` gives access to the variable order (numeric keys are VARIABLE numbers)
pub trait CacheOp<M: Manager>: Copy {
    spec fn inv(self, operands: Seq<Tree>, n: int, res: Tree) -> bool;
    /// keys with numeric operands / several values
    spec fn inv_ext(self, m: &M, operands: Seq<Tree>, nums: Seq<u32>, res: Seq<Tree>, res_nums: Seq<u32>) -> bool;
}
pub open spec fn views<E: Edge>(s: Seq<&E>) -> Seq<Tree> { s.map_values(|e: &E| e.view()) }
pub open spec fn eviews<E: Edge>(s: Seq<E>) -> Seq<Tree> { s.map_values(|e: E| e.view()) }
/// ASSUMED apply-cache contract: `get` may answer anything that was (or could
/// have been) added under exactly this operator and these operands; `add`
/// demands that the entry is justified.  `inv` is defined per operator below.
pub trait ApplyCache<M: Manager, O: CacheOp<M>> {
    fn get(&self, manager: &M, operator: O, operands: &[Borrowed<M::Edge>]) -> (r: Option<M::Edge>)
        ensures match r { Some(h) => operator.inv(views(operands@), manager.num_levels_spec(), h.view()), None => true };
    fn add(&self, manager: &M, operator: O, operands: &[Borrowed<M::Edge>], value: Borrowed<M::Edge>)
        requires operator.inv(views(operands@), manager.num_levels_spec(), value.view());
    fn get_extended<const E: usize, const N: usize>(&self, manager: &M, operator: O, operands: (&[Borrowed<M::Edge>], &[u32])) -> (r: Option<([M::Edge; E], [u32; N])>)
        ensures match r { Some(v) => operator.inv_ext(manager, views(operands.0@), operands.1@, eviews(v.0@), v.1@), None => true };
    fn add_extended(&self, manager: &M, operator: O, operands: (&[Borrowed<M::Edge>], &[u32]), values: (&[Borrowed<M::Edge>], &[u32]))
        requires operator.inv_ext(manager, views(operands.0@), operands.1@, views(values.0@), values.1@);
}
/// R11 helper (trusted): the irrefutable slice pattern `Some(([h], []))`
#[verifier::external_body]
pub fn cache_get1<E: Edge>(r: Option<([E; 1], [u32; 0])>) -> (o: Option<E>)
    ensures r is Some <==> o is Some, o is Some ==> o->Some_0.view() == r->Some_0.0@[0].view(),
{ match r { Some(([h], [])) => Some(h), None => None } }
pub trait HasApplyCache<M: Manager, O: CacheOp<M>> {
    type ApplyCache: ApplyCache<M, O>;
    fn apply_cache(&self) -> &Self::ApplyCache;
}
pub trait Recursor<M: Manager>: Copy {
    spec fn switch_spec(self) -> bool;
    fn should_switch_to_sequential(self) -> (b: bool) ensures b == self.switch_spec();
}
#[derive(Clone, Copy)]
pub struct SequentialRecursor;
impl<M: Manager> Recursor<M> for SequentialRecursor {
    open spec fn switch_spec(self) -> bool { false }
    fn should_switch_to_sequential(self) -> bool { false }
}
/// stub of the multi-threaded recursor used by the `mt` wrappers.  ASSUMED: the generic apply functions meet their
/// contracts also when run with it (they are PROVED with the sequential recursor's methods inlined, rule R5; the
/// fork/join bodies of ParallelRecursor are not verified).  What the `__mt` units prove is the wrapper glue.
#[derive(Clone, Copy)]
pub struct ParallelRecursor { pub depth: u32 }
impl ParallelRecursor {
    #[verifier::external_body]
    pub fn new<M: Manager>(manager: &M) -> (r: Self) { unimplemented!() }
}
impl<M: Manager> Recursor<M> for ParallelRecursor {
    open spec fn switch_spec(self) -> bool { self.depth == 0 }
    fn should_switch_to_sequential(self) -> bool { self.depth == 0 }
}

// ---------- items copied from the real crates ----------
//@item file=crates/oxidd-rules-zbdd/src/lib.rs path=enum:ZBDDTerminal attrs="#[derive(Clone, Copy, PartialEq, Eq, Structural)]" vis=pub
//@end
//@item file=crates/oxidd-rules-zbdd/src/lib.rs path=enum:ZBDDOp attrs="#[derive(Clone, Copy, PartialEq, Eq, Structural)] #[repr(u8)]" vis=pub
//@end
//@item file=crates/oxidd-core/src/lib.rs path=enum:ReducedOrNew vis=pub
//@end
impl TermView for ZBDDTerminal { open spec fn tview(&self) -> bool { *self == ZBDDTerminal::Base } }
const HI: usize = 0;
const LO: usize = 1;

// ---------- per-operator cache invariants (the meaning of a cache key) ----------
impl<M: Manager> CacheOp<M> for ZBDDOp {
    open spec fn inv(self, operands: Seq<Tree>, n: int, res: Tree) -> bool {
        let o = self as u8;
        if o == ZBDDOp::Union as u8 { operands.len() == 2 && union_post(operands[0], operands[1], n, res) }
        else if o == ZBDDOp::Intsec as u8 { operands.len() == 2 && intsec_post(operands[0], operands[1], n, res) }
        else if o == ZBDDOp::Diff as u8 { operands.len() == 2 && diff_post(operands[0], operands[1], n, res) }
        else if o == ZBDDOp::SymmDiff as u8 { operands.len() == 2 && symm_diff_post(operands[0], operands[1], n, res) }
        else if o == ZBDDOp::Ite as u8 { operands.len() == 3 && ite_post(operands[0], operands[1], operands[2], n, res) }
        // restrict is cached only when both operands have a node at the current level, so the level is determined by the key
        else if o == ZBDDOp::Restrict as u8 { operands.len() == 2 && is_inner(operands[0]) && top(operands[0]) == top(operands[1])
            && restrict_post(operands[0], operands[1], top(operands[0]), n, res) }
        else { false }
    }
    open spec fn inv_ext(self, m: &M, operands: Seq<Tree>, nums: Seq<u32>, res: Seq<Tree>, res_nums: Seq<u32>) -> bool {
        let o = self as u8;
        let n = m.num_levels_spec();
        &&& operands.len() == 1 && nums.len() == 1 && res.len() == 1 && res_nums.len() == 0
        &&& (nums[0] as int) < n
        &&& if o == ZBDDOp::Subset0 as u8 { subset0_post(operands[0], m.var_to_level_spec(nums[0] as int), n, res[0]) }
            else if o == ZBDDOp::Subset1 as u8 { subset1_post(operands[0], m.var_to_level_spec(nums[0] as int), n, res[0]) }
            else if o == ZBDDOp::Change as u8 { change_post(operands[0], m.var_to_level_spec(nums[0] as int), n, res[0]) }
            else { false }
    }
}
/// R10 helper for `DiagramRules::reduce`: the `impl IntoIterator<Item = E>` argument, always called with `[hi, lo]`
pub struct Children2<E> { pub a: Option<E>, pub b: Option<E> }
impl<E: Edge> Children2<E> {
    pub fn into_iter(self) -> (r: Self) ensures r == self { self }
    pub fn next(&mut self) -> (r: Option<E>)
        ensures r == old(self).a, final(self).a == old(self).b, final(self).b == None::<E>,
    { let r = self.a.take(); self.a = self.b.take(); r }
}

// ---------- the ZBDD cache (tautology chain) ----------
//@item file=crates/oxidd-rules-zbdd/src/lib.rs path=struct:ZBDDCache
//@end
impl<E: Edge> ZBDDCache<E> {
    /// ASSUMED invariant of the chain (established by `post_reorder_mut`, re-established on add_vars/reorder):
    /// one entry per level plus the terminal; entry `i` is the power set of the levels `n-i..n`
    spec fn chain_ok(&self, n: int) -> bool {
        &&& 0 <= n < u32::MAX
        &&& self.tautologies@.len() == n + 1
        &&& forall|i: int| 0 <= i <= n ==> (#[trigger] self.tautologies@[i]).view() == taut_tree(n - i, n)
    }
}
trait HasZBDDCache<E: Edge> {
    spec fn zcache_spec(&self) -> ZBDDCache<E>;
    fn zbdd_cache(&self) -> (r: &ZBDDCache<E>) ensures *r == self.zcache_spec();
}
/// R10 stub for `manager.zbdd_cache_mut().tautologies = v` (Verus has no `&mut`-returning accessors): replaces the chain, nothing else
#[verifier::external_body]
fn set_tautologies<M: Manager + HasZBDDCache<M::Edge>>(manager: &mut M, v: Vec<M::Edge>)
    ensures final(manager).zcache_spec().tautologies@ == v@, final(manager).num_levels_spec() == old(manager).num_levels_spec(),
        forall|x: int| final(manager).var_to_level_spec(x) == old(manager).var_to_level_spec(x),
{ unimplemented!() }
/// `std::process::abort()` (out of memory while rebuilding the chain): does not return
#[verifier::external_body]
pub fn abort_oom() -> ! { std::process::abort() }
/// the same call under the C14 reading "an operation never aborts the process": reaching it is a violation
#[verifier::external_body]
pub fn abort_is_a_violation() -> ! requires false { std::process::abort() }
/// ASSUMED (precondition of every unit that reads the chain): the tautology chain is up to date w.r.t. the manager's
/// current number of levels (`init_mut`/`post_reorder_mut` rebuild it after add_vars and reordering)
spec fn zcache_ok<M: Manager + HasZBDDCache<M::Edge>>(m: &M) -> bool { m.zcache_spec().chain_ok(m.num_levels_spec()) }

// ---------- units: crates/oxidd-rules-zbdd/src/lib.rs ----------
// ---------- pick_cube (vector form, C13) ----------
//@item file=crates/oxidd-core/src/util/mod.rs path=enum:OptBool attrs="#[derive(Clone, Copy, PartialEq, Eq, Structural)] #[repr(i8)]" vis=pub
//@end
impl vstd::std_specs::convert::FromSpecImpl<bool> for OptBool {
    open spec fn obeys_from_spec() -> bool { true }
    open spec fn from_spec(v: bool) -> OptBool { if v { OptBool::True } else { OptBool::False } }
}
//@item file=crates/oxidd-core/src/util/mod.rs path=impl:From<bool>~for~OptBool props=C13
//@end
pub open spec fn zlit_ok(c: OptBool, b: bool) -> bool { match c { OptBool::None => true, OptBool::True => b, OptBool::False => !b } }
/// the cube vector (indexed by VARIABLE) admits the set `s` (indexed by level) on the levels `from..n`
pub open spec fn zcube_allows<M: Manager>(m: &M, c: Seq<OptBool>, s: Env, from: int) -> bool {
    forall|l: int| from <= l < m.num_levels_spec() ==> zlit_ok(c[m.level_to_var_spec(l)], #[trigger] s(l))
}
mod rules {
use super::*;
broadcast use {leaf_lemmas, upd_lemmas, taut_lemmas, set_lemmas};
pub struct ZBDDRules;
impl ZBDDRules {
// the reduction rule itself (C01/C03): DiagramRules::reduce of ZBDDRules
//@fn file=crates/oxidd-rules-zbdd/src/lib.rs path=impl:DiagramRules<E,~N,~ZBDDTerminal>~for~ZBDDRules/fn:reduce id=ZBDDRules__reduce props=C01,C03,C09 vis=pub
//@header
fn reduce<E: Edge, N: InnerNode<E>, M: Manager<Edge = E, InnerNode = N, Terminal = ZBDDTerminal>>(manager: &M, level: LevelNo, children: Children2<E>) -> (res: ReducedOrNew<E, N>)
//@spec
    requires children.a is Some, children.b is Some,
    ensures match res {
        ReducedOrNew::Reduced(e) => children.a->Some_0.view() == ee() && e.view() == children.b->Some_0.view(),
        ReducedOrNew::New(node, _) => children.a->Some_0.view() != ee() && node.level_spec() == level
            && node.then_spec() == children.a->Some_0.view() && node.else_spec() == children.b->Some_0.view(),
    },
//@end
}
impl<E: Edge, N: InnerNode<E>> ReducedOrNew<E, N> {
//@fn file=crates/oxidd-core/src/lib.rs path=impl:ReducedOrNew<E,~N>/fn:then_insert props=C01,C03 vis=pub
//@spec
    requires (level as int) < manager.num_levels_spec(), self matches ReducedOrNew::New(node, _) ==> node.level_spec() == level,
    ensures res is Ok ==> res->Ok_0.view() == (match self { ReducedOrNew::Reduced(e) => e.view(), ReducedOrNew::New(node, _) => mk(node.level_spec(), node.then_spec(), node.else_spec()) }),
//@end
}
/// what the three reduce functions have in common: the node `(level, hi, lo)` after zero-suppression
pub open spec fn reduce_post(level: u32, hi: Tree, lo: Tree, n: int, r: Tree) -> bool {
    &&& ok(r, n) && top(r) >= level
    &&& r == (if hi == ee() { lo } else { mk(level, hi, lo) })
    &&& forall|s: Env| #[trigger] mem(r, s) == (if s(level as int) { mem(hi, upd(s, level as int, false)) } else { mem(lo, s) })
}
//@fn file=crates/oxidd-rules-zbdd/src/lib.rs path=fn:reduce#1 props=C01,C03,C09 vis=pub
//@spec
    requires (level as int) < manager.num_levels_spec(),
        ok(hi.view(), manager.num_levels_spec()), ok(lo.view(), manager.num_levels_spec()),
        (level as int) < top(hi.view()), (level as int) < top(lo.view()),
    ensures res is Ok ==> reduce_post(level, hi.view(), lo.view(), manager.num_levels_spec(), res->Ok_0.view()),
//@end
//@fn file=crates/oxidd-rules-zbdd/src/lib.rs path=fn:reduce1 props=C01,C03,C09 vis=pub
//@spec
    requires (level as int) < manager.num_levels_spec(),
        ok(child.view(), manager.num_levels_spec()), (level as int) < top(child.view()),
    ensures res is Ok ==> reduce_post(level, child.view(), child.view(), manager.num_levels_spec(), res->Ok_0.view()),
//@end
//@fn file=crates/oxidd-rules-zbdd/src/lib.rs path=fn:reduce_borrowed props=C01,C03,C09 vis=pub
//@spec
    requires (level as int) < manager.num_levels_spec(),
        ok(hi.view(), manager.num_levels_spec()), ok(lo.view(), manager.num_levels_spec()),
        (level as int) < top(hi.view()), (level as int) < top(lo.view()),
    ensures res is Ok ==> reduce_post(level, hi.view(), lo.view(), manager.num_levels_spec(), res->Ok_0.view()),
//@end
//@fn file=crates/oxidd-rules-zbdd/src/lib.rs path=fn:collect_children mode=stub ret=r vis=pub
//@spec
    ensures r.0.view() == node.then_spec(), r.1.view() == node.else_spec(),
//@end
//@fn file=crates/oxidd-rules-zbdd/src/lib.rs path=fn:singleton_level ret=r props=C09 vis=pub
//@spec
    requires is_inner(edge.view()),
    ensures r as int == top(edge.view()),
//@end
//@fn file=crates/oxidd-rules-zbdd/src/lib.rs path=fn:make_node props=C09,C03 vis=pub
//@spec
    // documented precondition: `var` is a singleton set whose level is above `hi`'s and `lo`'s levels
    requires ok(var.view(), manager.num_levels_spec()), var.view() == mk(top(var.view()) as u32, bb(), ee()),
        ok(hi.view(), manager.num_levels_spec()), ok(lo.view(), manager.num_levels_spec()),
        top(var.view()) < top(hi.view()), top(var.view()) < top(lo.view()),
    // documented result: lo ∪ {x ∪ {var} | x ∈ hi}
    ensures res is Ok ==> ok(res->Ok_0.view(), manager.num_levels_spec())
        && forall|s: Env| #[trigger] mem(res->Ok_0.view(), s) == (mem(lo.view(), s) || (s(top(var.view())) && mem(hi.view(), upd(s, top(var.view()), false)))),
//@end
// the tautology chain itself (C02/C09): `post_reorder_mut` (also `init_mut`) establishes the invariant `zcache_ok` that every unit
// reading the chain assumes.  R17 (loop invariant), R20 (eprintln dropped), abort -> diverging stub, `&mut` accessor -> setter stub
//@fn file=crates/oxidd-rules-zbdd/src/lib.rs path=impl:ManagerEventSubscriber<M>~for~ZBDDCache<M::Edge>/fn:post_reorder_mut forinv=0 props=C02,C09 subst_text=std::process::abort()::=abort_oom();;manager.zbdd_cache_mut().tautologies~=~tautologies;::=set_tautologies(manager,~tautologies);
//@header
fn post_reorder_mut<M>(manager: &mut M)
where M: Manager<Terminal = ZBDDTerminal> + HasZBDDCache<M::Edge>,
//@spec
    requires 0 <= old(manager).num_levels_spec() < u32::MAX,
    ensures zcache_ok(final(manager)), final(manager).num_levels_spec() == old(manager).num_levels_spec(),
//@loop
    invariant
        0 <= manager.num_levels_spec() < u32::MAX, iter__0.rem().len() <= manager.num_levels_spec(),
        forall|i: int| 0 <= i < iter__0.rem().len() ==> #[trigger] iter__0.rem()[i] == iter__0.rem().len() - 1 - i,
        tautologies@.len() == manager.num_levels_spec() - iter__0.rem().len() + 1,
        forall|i: int| 0 <= i < tautologies@.len() ==> (#[trigger] tautologies@[i]).view() == taut_tree(manager.num_levels_spec() - i, manager.num_levels_spec()),
    ensures
        tautologies@.len() == manager.num_levels_spec() + 1,
        forall|i: int| 0 <= i < tautologies@.len() ==> (#[trigger] tautologies@[i]).view() == taut_tree(manager.num_levels_spec() - i, manager.num_levels_spec()),
    decreases iter__0.rem().len(),
//@end
// C14 ("never aborts"): the same body with the abort call as a proof obligation - REFUTED on the unchanged tree, listed as an open known finding
//@fn file=crates/oxidd-rules-zbdd/src/lib.rs path=impl:ManagerEventSubscriber<M>~for~ZBDDCache<M::Edge>/fn:post_reorder_mut name=post_reorder_mut__noabort forinv=0 props=C14 subst_text=std::process::abort()::=abort_is_a_violation();;manager.zbdd_cache_mut().tautologies~=~tautologies;::=set_tautologies(manager,~tautologies);
//@header
fn post_reorder_mut__noabort<M>(manager: &mut M)
where M: Manager<Terminal = ZBDDTerminal> + HasZBDDCache<M::Edge>,
//@spec
    requires 0 <= old(manager).num_levels_spec() < u32::MAX,
    ensures zcache_ok(final(manager)), final(manager).num_levels_spec() == old(manager).num_levels_spec(),
//@loop
    invariant
        0 <= manager.num_levels_spec() < u32::MAX, iter__0.rem().len() <= manager.num_levels_spec(),
        forall|i: int| 0 <= i < iter__0.rem().len() ==> #[trigger] iter__0.rem()[i] == iter__0.rem().len() - 1 - i,
        tautologies@.len() == manager.num_levels_spec() - iter__0.rem().len() + 1,
        forall|i: int| 0 <= i < tautologies@.len() ==> (#[trigger] tautologies@[i]).view() == taut_tree(manager.num_levels_spec() - i, manager.num_levels_spec()),
    ensures
        tautologies@.len() == manager.num_levels_spec() + 1,
        forall|i: int| 0 <= i < tautologies@.len() ==> (#[trigger] tautologies@[i]).view() == taut_tree(manager.num_levels_spec() - i, manager.num_levels_spec()),
    decreases iter__0.rem().len(),
//@end
impl<E: Edge> ZBDDCache<E> {
//@fn file=crates/oxidd-rules-zbdd/src/lib.rs path=impl:<E:~Edge>~ZBDDCache<E>/fn:tautology ret=r props=C02,C09
//@spec
    requires self.tautologies@.len() >= 1, self.tautologies@.len() <= u32::MAX,
    ensures
        // index arithmetic against the Vec view: entry `len-1-min(len-1, level)`
        r == &self.tautologies@[self.tautologies@.len() - 1 - (if (level as int) < self.tautologies@.len() - 1 { level as int } else { self.tautologies@.len() - 1 })],
        // hence, under the chain invariant: the power set of the levels `min(level, n)..n`
        forall|n: int| #[trigger] self.chain_ok(n) ==> r.view() == taut_tree(if (level as int) < n { level as int } else { n }, n),
//@end
}

pub mod apply_rec {
use super::*;
broadcast use {leaf_lemmas, ite_lemmas};
//@fn file=crates/oxidd-rules-zbdd/src/apply_rec.rs path=fn:apply_union nodecr props=C09,C02,C06 vis=pub
//@spec
    requires edge_ok::<M::Edge>(), ok(f.view(), manager.num_levels_spec()), ok(g.view(), manager.num_levels_spec()),
    ensures res is Ok ==> union_post(f.view(), g.view(), manager.num_levels_spec(), res->Ok_0.view()),
//@end
//@fn file=crates/oxidd-rules-zbdd/src/apply_rec.rs path=fn:apply_intsec nodecr props=C09,C02,C06 vis=pub
//@spec
    requires edge_ok::<M::Edge>(), ok(f.view(), manager.num_levels_spec()), ok(g.view(), manager.num_levels_spec()),
    ensures res is Ok ==> intsec_post(f.view(), g.view(), manager.num_levels_spec(), res->Ok_0.view()),
//@end
//@fn file=crates/oxidd-rules-zbdd/src/apply_rec.rs path=fn:apply_diff nodecr props=C09,C02,C06 vis=pub
//@spec
    requires edge_ok::<M::Edge>(), ok(f.view(), manager.num_levels_spec()), ok(g.view(), manager.num_levels_spec()),
    ensures res is Ok ==> diff_post(f.view(), g.view(), manager.num_levels_spec(), res->Ok_0.view()),
//@end
//@fn file=crates/oxidd-rules-zbdd/src/apply_rec.rs path=fn:apply_symm_diff nodecr props=C02,C06 vis=pub
//@spec
    requires edge_ok::<M::Edge>(), ok(f.view(), manager.num_levels_spec()), ok(g.view(), manager.num_levels_spec()),
    ensures res is Ok ==> symm_diff_post(f.view(), g.view(), manager.num_levels_spec(), res->Ok_0.view()),
//@end
//@fn file=crates/oxidd-rules-zbdd/src/apply_rec.rs path=fn:apply_ite nodecr props=C02,C06 vis=pub(crate)
//@spec
    requires edge_ok::<M::Edge>(), zcache_ok(manager), ok(f.view(), manager.num_levels_spec()), ok(g.view(), manager.num_levels_spec()), ok(h.view(), manager.num_levels_spec()),
    ensures res is Ok ==> ite_post(f.view(), g.view(), h.view(), manager.num_levels_spec(), res->Ok_0.view()),
//@end
} // mod apply_rec
pub mod apply_rec_w {
use super::*;
use super::apply_rec::*;
broadcast use {leaf_lemmas, upd_lemmas, taut_lemmas, set_lemmas};
//@fn file=crates/oxidd-rules-zbdd/src/apply_rec.rs path=fn:apply_not nodecr props=C02 vis=pub(crate)
//@spec
    requires edge_ok::<M::Edge>(), zcache_ok(manager), ok(f.view(), manager.num_levels_spec()),
    ensures res is Ok ==> not_post(f.view(), manager.num_levels_spec(), res->Ok_0.view()),
//@end
//@fn file=crates/oxidd-rules-zbdd/src/apply_rec.rs path=fn:subset nodecr props=C09,C06 cases=VAL:0-1,0,1 vis=pub
//@spec
    requires VAL == -1 || VAL == 0 || VAL == 1, edge_ok::<M::Edge>(), ok(f.view(), manager.num_levels_spec()),
        (var as int) < manager.num_levels_spec(), var_level as int == manager.var_to_level_spec(var as int),
        (var_level as int) < manager.num_levels_spec() <= u32::MAX,
    ensures res is Ok ==> (VAL == 0 ==> subset0_post(f.view(), var_level as int, manager.num_levels_spec(), res->Ok_0.view()))
        && (VAL == 1 ==> subset1_post(f.view(), var_level as int, manager.num_levels_spec(), res->Ok_0.view()))
        && (VAL == -1 ==> change_post(f.view(), var_level as int, manager.num_levels_spec(), res->Ok_0.view())),
//@end
/// R10-style helper: what callers of `subset::<_, _, -1>(..)` see, i.e. the contract of `subset` (proved on the real body in
/// `subset__case_0_1`) at VAL == -1.  Needed because the installed Verus mis-encodes NEGATIVE const-generic arguments at
/// call sites (`g::<-1>()` makes the caller's context inconsistent; probed), so the call cannot be checked directly.
#[verifier::external_body]
pub fn subset_change<M, R: Recursor<M>>(manager: &M, rec: R, f: Borrowed<M::Edge>, var: VarNo, var_level: LevelNo) -> (res: AllocResult<M::Edge>)
where M: Manager<Terminal = ZBDDTerminal> + HasApplyCache<M, ZBDDOp>, M::InnerNode: HasLevel,
    requires edge_ok::<M::Edge>(), ok(f.view(), manager.num_levels_spec()),
        (var as int) < manager.num_levels_spec(), var_level as int == manager.var_to_level_spec(var as int),
        (var_level as int) < manager.num_levels_spec() <= u32::MAX,
    ensures res is Ok ==> change_post(f.view(), var_level as int, manager.num_levels_spec(), res->Ok_0.view()),
{ unimplemented!() }
//@fn file=crates/oxidd-rules-zbdd/src/apply_rec.rs path=impl:BooleanVecSet~for~ZBDDFunction<F>/fn:singleton_edge props=C09,C03
//@header
fn singleton_edge<M>(manager: &M, var: VarNo) -> (res: AllocResult<M::Edge>)
where M: Manager<Terminal = ZBDDTerminal> + HasApplyCache<M, ZBDDOp> + HasZBDDCache<M::Edge>, M::InnerNode: HasLevel,
//@spec
    requires (var as int) < manager.num_levels_spec(),
    // exactly the family { {var} }
    ensures res is Ok ==> ok(res->Ok_0.view(), manager.num_levels_spec())
        && forall|s: Env| #[trigger] mem(res->Ok_0.view(), s) == is_singleton_set(s, manager.var_to_level_spec(var as int)),
//@end
//@fn file=crates/oxidd-rules-zbdd/src/apply_rec.rs path=mod:mt/impl:BooleanVecSet~for~ZBDDFunctionMT<F>/fn:singleton_edge name=singleton_edge__mt props=C09,C03 subst_text=ZBDDFunction::<F>::::=
//@header
fn singleton_edge__mt<M>(manager: &M, var: VarNo) -> (res: AllocResult<M::Edge>)
where M: Manager<Terminal = ZBDDTerminal> + HasApplyCache<M, ZBDDOp> + HasZBDDCache<M::Edge>, M::InnerNode: HasLevel,
//@spec
    requires (var as int) < manager.num_levels_spec(),
    // exactly the family { {var} }
    ensures res is Ok ==> ok(res->Ok_0.view(), manager.num_levels_spec())
        && forall|s: Env| #[trigger] mem(res->Ok_0.view(), s) == is_singleton_set(s, manager.var_to_level_spec(var as int)),
//@end
//@fn file=crates/oxidd-rules-zbdd/src/apply_rec.rs path=impl:BooleanVecSet~for~ZBDDFunction<F>/fn:empty_edge props=C09
//@header
fn empty_edge<M>(manager: &M) -> (res: M::Edge)
where M: Manager<Terminal = ZBDDTerminal> + HasApplyCache<M, ZBDDOp> + HasZBDDCache<M::Edge>, M::InnerNode: HasLevel,
//@spec
    ensures ok(res.view(), manager.num_levels_spec()), forall|s: Env| !(#[trigger] mem(res.view(), s)),
//@end
//@fn file=crates/oxidd-rules-zbdd/src/apply_rec.rs path=mod:mt/impl:BooleanVecSet~for~ZBDDFunctionMT<F>/fn:empty_edge name=empty_edge__mt props=C09
//@header
fn empty_edge__mt<M>(manager: &M) -> (res: M::Edge)
where M: Manager<Terminal = ZBDDTerminal> + HasApplyCache<M, ZBDDOp> + HasZBDDCache<M::Edge>, M::InnerNode: HasLevel,
//@spec
    ensures ok(res.view(), manager.num_levels_spec()), forall|s: Env| !(#[trigger] mem(res.view(), s)),
//@end
//@fn file=crates/oxidd-rules-zbdd/src/apply_rec.rs path=impl:BooleanVecSet~for~ZBDDFunction<F>/fn:base_edge props=C09
//@header
fn base_edge<M>(manager: &M) -> (res: M::Edge)
where M: Manager<Terminal = ZBDDTerminal> + HasApplyCache<M, ZBDDOp> + HasZBDDCache<M::Edge>, M::InnerNode: HasLevel,
//@spec
    ensures ok(res.view(), manager.num_levels_spec()), forall|s: Env| #[trigger] mem(res.view(), s) == is_empty_set(s),
//@end
//@fn file=crates/oxidd-rules-zbdd/src/apply_rec.rs path=mod:mt/impl:BooleanVecSet~for~ZBDDFunctionMT<F>/fn:base_edge name=base_edge__mt props=C09
//@header
fn base_edge__mt<M>(manager: &M) -> (res: M::Edge)
where M: Manager<Terminal = ZBDDTerminal> + HasApplyCache<M, ZBDDOp> + HasZBDDCache<M::Edge>, M::InnerNode: HasLevel,
//@spec
    ensures ok(res.view(), manager.num_levels_spec()), forall|s: Env| #[trigger] mem(res.view(), s) == is_empty_set(s),
//@end
//@fn file=crates/oxidd-rules-zbdd/src/apply_rec.rs path=impl:BooleanVecSet~for~ZBDDFunction<F>/fn:subset0_edge props=C09
//@header
fn subset0_edge<M>(manager: &M, set: &M::Edge, var: VarNo) -> (res: AllocResult<M::Edge>)
where M: Manager<Terminal = ZBDDTerminal> + HasApplyCache<M, ZBDDOp> + HasZBDDCache<M::Edge>, M::InnerNode: HasLevel,
//@spec
    requires edge_ok::<M::Edge>(), ok(set.view(), manager.num_levels_spec()), (var as int) < manager.num_levels_spec(),
    ensures res is Ok ==> subset0_post(set.view(), manager.var_to_level_spec(var as int), manager.num_levels_spec(), res->Ok_0.view()),
//@end
//@fn file=crates/oxidd-rules-zbdd/src/apply_rec.rs path=mod:mt/impl:BooleanVecSet~for~ZBDDFunctionMT<F>/fn:subset0_edge name=subset0_edge__mt props=C09
//@header
fn subset0_edge__mt<M>(manager: &M, set: &M::Edge, var: VarNo) -> (res: AllocResult<M::Edge>)
where M: Manager<Terminal = ZBDDTerminal> + HasApplyCache<M, ZBDDOp> + HasZBDDCache<M::Edge>, M::InnerNode: HasLevel,
//@spec
    requires edge_ok::<M::Edge>(), ok(set.view(), manager.num_levels_spec()), (var as int) < manager.num_levels_spec(),
    ensures res is Ok ==> subset0_post(set.view(), manager.var_to_level_spec(var as int), manager.num_levels_spec(), res->Ok_0.view()),
//@end
//@fn file=crates/oxidd-rules-zbdd/src/apply_rec.rs path=impl:BooleanVecSet~for~ZBDDFunction<F>/fn:subset1_edge props=C09
//@header
fn subset1_edge<M>(manager: &M, set: &M::Edge, var: VarNo) -> (res: AllocResult<M::Edge>)
where M: Manager<Terminal = ZBDDTerminal> + HasApplyCache<M, ZBDDOp> + HasZBDDCache<M::Edge>, M::InnerNode: HasLevel,
//@spec
    requires edge_ok::<M::Edge>(), ok(set.view(), manager.num_levels_spec()), (var as int) < manager.num_levels_spec(),
    ensures res is Ok ==> subset1_post(set.view(), manager.var_to_level_spec(var as int), manager.num_levels_spec(), res->Ok_0.view()),
//@end
//@fn file=crates/oxidd-rules-zbdd/src/apply_rec.rs path=mod:mt/impl:BooleanVecSet~for~ZBDDFunctionMT<F>/fn:subset1_edge name=subset1_edge__mt props=C09
//@header
fn subset1_edge__mt<M>(manager: &M, set: &M::Edge, var: VarNo) -> (res: AllocResult<M::Edge>)
where M: Manager<Terminal = ZBDDTerminal> + HasApplyCache<M, ZBDDOp> + HasZBDDCache<M::Edge>, M::InnerNode: HasLevel,
//@spec
    requires edge_ok::<M::Edge>(), ok(set.view(), manager.num_levels_spec()), (var as int) < manager.num_levels_spec(),
    ensures res is Ok ==> subset1_post(set.view(), manager.var_to_level_spec(var as int), manager.num_levels_spec(), res->Ok_0.view()),
//@end
//@fn file=crates/oxidd-rules-zbdd/src/apply_rec.rs path=impl:BooleanVecSet~for~ZBDDFunction<F>/fn:change_edge props=C09 subst_text=subset::<_,~_,~-1>::=subset_change
//@header
fn change_edge<M>(manager: &M, set: &M::Edge, var: VarNo) -> (res: AllocResult<M::Edge>)
where M: Manager<Terminal = ZBDDTerminal> + HasApplyCache<M, ZBDDOp> + HasZBDDCache<M::Edge>, M::InnerNode: HasLevel,
//@spec
    requires edge_ok::<M::Edge>(), ok(set.view(), manager.num_levels_spec()), (var as int) < manager.num_levels_spec(),
    ensures res is Ok ==> change_post(set.view(), manager.var_to_level_spec(var as int), manager.num_levels_spec(), res->Ok_0.view()),
//@end
//@fn file=crates/oxidd-rules-zbdd/src/apply_rec.rs path=mod:mt/impl:BooleanVecSet~for~ZBDDFunctionMT<F>/fn:change_edge name=change_edge__mt props=C09 subst_text=subset::<_,~_,~-1>::=subset_change
//@header
fn change_edge__mt<M>(manager: &M, set: &M::Edge, var: VarNo) -> (res: AllocResult<M::Edge>)
where M: Manager<Terminal = ZBDDTerminal> + HasApplyCache<M, ZBDDOp> + HasZBDDCache<M::Edge>, M::InnerNode: HasLevel,
//@spec
    requires edge_ok::<M::Edge>(), ok(set.view(), manager.num_levels_spec()), (var as int) < manager.num_levels_spec(),
    ensures res is Ok ==> change_post(set.view(), manager.var_to_level_spec(var as int), manager.num_levels_spec(), res->Ok_0.view()),
//@end
//@fn file=crates/oxidd-rules-zbdd/src/apply_rec.rs path=impl:BooleanVecSet~for~ZBDDFunction<F>/fn:union_edge props=C09
//@header
fn union_edge<M>(manager: &M, lhs: &M::Edge, rhs: &M::Edge) -> (res: AllocResult<M::Edge>)
where M: Manager<Terminal = ZBDDTerminal> + HasApplyCache<M, ZBDDOp> + HasZBDDCache<M::Edge>, M::InnerNode: HasLevel,
//@spec
    requires edge_ok::<M::Edge>(), ok(lhs.view(), manager.num_levels_spec()), ok(rhs.view(), manager.num_levels_spec()),
    ensures res is Ok ==> union_post(lhs.view(), rhs.view(), manager.num_levels_spec(), res->Ok_0.view()),
//@end
//@fn file=crates/oxidd-rules-zbdd/src/apply_rec.rs path=mod:mt/impl:BooleanVecSet~for~ZBDDFunctionMT<F>/fn:union_edge name=union_edge__mt props=C09
//@header
fn union_edge__mt<M>(manager: &M, lhs: &M::Edge, rhs: &M::Edge) -> (res: AllocResult<M::Edge>)
where M: Manager<Terminal = ZBDDTerminal> + HasApplyCache<M, ZBDDOp> + HasZBDDCache<M::Edge>, M::InnerNode: HasLevel,
//@spec
    requires edge_ok::<M::Edge>(), ok(lhs.view(), manager.num_levels_spec()), ok(rhs.view(), manager.num_levels_spec()),
    ensures res is Ok ==> union_post(lhs.view(), rhs.view(), manager.num_levels_spec(), res->Ok_0.view()),
//@end
//@fn file=crates/oxidd-rules-zbdd/src/apply_rec.rs path=impl:BooleanVecSet~for~ZBDDFunction<F>/fn:intsec_edge props=C09
//@header
fn intsec_edge<M>(manager: &M, lhs: &M::Edge, rhs: &M::Edge) -> (res: AllocResult<M::Edge>)
where M: Manager<Terminal = ZBDDTerminal> + HasApplyCache<M, ZBDDOp> + HasZBDDCache<M::Edge>, M::InnerNode: HasLevel,
//@spec
    requires edge_ok::<M::Edge>(), ok(lhs.view(), manager.num_levels_spec()), ok(rhs.view(), manager.num_levels_spec()),
    ensures res is Ok ==> intsec_post(lhs.view(), rhs.view(), manager.num_levels_spec(), res->Ok_0.view()),
//@end
//@fn file=crates/oxidd-rules-zbdd/src/apply_rec.rs path=mod:mt/impl:BooleanVecSet~for~ZBDDFunctionMT<F>/fn:intsec_edge name=intsec_edge__mt props=C09
//@header
fn intsec_edge__mt<M>(manager: &M, lhs: &M::Edge, rhs: &M::Edge) -> (res: AllocResult<M::Edge>)
where M: Manager<Terminal = ZBDDTerminal> + HasApplyCache<M, ZBDDOp> + HasZBDDCache<M::Edge>, M::InnerNode: HasLevel,
//@spec
    requires edge_ok::<M::Edge>(), ok(lhs.view(), manager.num_levels_spec()), ok(rhs.view(), manager.num_levels_spec()),
    ensures res is Ok ==> intsec_post(lhs.view(), rhs.view(), manager.num_levels_spec(), res->Ok_0.view()),
//@end
//@fn file=crates/oxidd-rules-zbdd/src/apply_rec.rs path=impl:BooleanVecSet~for~ZBDDFunction<F>/fn:diff_edge props=C09
//@header
fn diff_edge<M>(manager: &M, lhs: &M::Edge, rhs: &M::Edge) -> (res: AllocResult<M::Edge>)
where M: Manager<Terminal = ZBDDTerminal> + HasApplyCache<M, ZBDDOp> + HasZBDDCache<M::Edge>, M::InnerNode: HasLevel,
//@spec
    requires edge_ok::<M::Edge>(), ok(lhs.view(), manager.num_levels_spec()), ok(rhs.view(), manager.num_levels_spec()),
    ensures res is Ok ==> diff_post(lhs.view(), rhs.view(), manager.num_levels_spec(), res->Ok_0.view()),
//@end
//@fn file=crates/oxidd-rules-zbdd/src/apply_rec.rs path=mod:mt/impl:BooleanVecSet~for~ZBDDFunctionMT<F>/fn:diff_edge name=diff_edge__mt props=C09
//@header
fn diff_edge__mt<M>(manager: &M, lhs: &M::Edge, rhs: &M::Edge) -> (res: AllocResult<M::Edge>)
where M: Manager<Terminal = ZBDDTerminal> + HasApplyCache<M, ZBDDOp> + HasZBDDCache<M::Edge>, M::InnerNode: HasLevel,
//@spec
    requires edge_ok::<M::Edge>(), ok(lhs.view(), manager.num_levels_spec()), ok(rhs.view(), manager.num_levels_spec()),
    ensures res is Ok ==> diff_post(lhs.view(), rhs.view(), manager.num_levels_spec(), res->Ok_0.view()),
//@end
//@fn file=crates/oxidd-rules-zbdd/src/apply_rec.rs path=impl:BooleanFunction~for~ZBDDFunction<F>/fn:f_edge props=C02
//@header
fn f_edge<M>(manager: &M) -> (res: M::Edge)
where M: Manager<Terminal = ZBDDTerminal> + HasApplyCache<M, ZBDDOp> + HasZBDDCache<M::Edge>, M::InnerNode: HasLevel,
//@spec
    ensures ok(res.view(), manager.num_levels_spec()), forall|env: Env| !(#[trigger] bsem(res.view(), manager.num_levels_spec(), env)),
//@end
//@fn file=crates/oxidd-rules-zbdd/src/apply_rec.rs path=mod:mt/impl:BooleanFunction~for~ZBDDFunctionMT<F>/fn:f_edge name=f_edge__mt props=C02
//@header
fn f_edge__mt<M>(manager: &M) -> (res: M::Edge)
where M: Manager<Terminal = ZBDDTerminal> + HasApplyCache<M, ZBDDOp> + HasZBDDCache<M::Edge>, M::InnerNode: HasLevel,
//@spec
    ensures ok(res.view(), manager.num_levels_spec()), forall|env: Env| !(#[trigger] bsem(res.view(), manager.num_levels_spec(), env)),
//@end
//@fn file=crates/oxidd-rules-zbdd/src/apply_rec.rs path=impl:BooleanFunction~for~ZBDDFunction<F>/fn:t_edge props=C02
//@header
fn t_edge<M>(manager: &M) -> (res: M::Edge)
where M: Manager<Terminal = ZBDDTerminal> + HasApplyCache<M, ZBDDOp> + HasZBDDCache<M::Edge>, M::InnerNode: HasLevel,
//@spec
    requires zcache_ok(manager),
    ensures ok(res.view(), manager.num_levels_spec()), forall|env: Env| #[trigger] bsem(res.view(), manager.num_levels_spec(), env),
//@end
//@fn file=crates/oxidd-rules-zbdd/src/apply_rec.rs path=mod:mt/impl:BooleanFunction~for~ZBDDFunctionMT<F>/fn:t_edge name=t_edge__mt props=C02
//@header
fn t_edge__mt<M>(manager: &M) -> (res: M::Edge)
where M: Manager<Terminal = ZBDDTerminal> + HasApplyCache<M, ZBDDOp> + HasZBDDCache<M::Edge>, M::InnerNode: HasLevel,
//@spec
    requires zcache_ok(manager),
    ensures ok(res.view(), manager.num_levels_spec()), forall|env: Env| #[trigger] bsem(res.view(), manager.num_levels_spec(), env),
//@end
//@fn file=crates/oxidd-rules-zbdd/src/apply_rec.rs path=impl:BooleanFunction~for~ZBDDFunction<F>/fn:not_edge props=C02
//@header
fn not_edge<M>(manager: &M, edge: &M::Edge) -> (res: AllocResult<M::Edge>)
where M: Manager<Terminal = ZBDDTerminal> + HasApplyCache<M, ZBDDOp> + HasZBDDCache<M::Edge>, M::InnerNode: HasLevel,
//@spec
    requires edge_ok::<M::Edge>(), zcache_ok(manager), ok(edge.view(), manager.num_levels_spec()),
    ensures res is Ok ==> ok(res->Ok_0.view(), manager.num_levels_spec())
        && forall|env: Env| #[trigger] bsem(res->Ok_0.view(), manager.num_levels_spec(), env) == !bsem(edge.view(), manager.num_levels_spec(), env),
//@end
//@fn file=crates/oxidd-rules-zbdd/src/apply_rec.rs path=mod:mt/impl:BooleanFunction~for~ZBDDFunctionMT<F>/fn:not_edge name=not_edge__mt props=C02
//@header
fn not_edge__mt<M>(manager: &M, edge: &M::Edge) -> (res: AllocResult<M::Edge>)
where M: Manager<Terminal = ZBDDTerminal> + HasApplyCache<M, ZBDDOp> + HasZBDDCache<M::Edge>, M::InnerNode: HasLevel,
//@spec
    requires edge_ok::<M::Edge>(), zcache_ok(manager), ok(edge.view(), manager.num_levels_spec()),
    ensures res is Ok ==> ok(res->Ok_0.view(), manager.num_levels_spec())
        && forall|env: Env| #[trigger] bsem(res->Ok_0.view(), manager.num_levels_spec(), env) == !bsem(edge.view(), manager.num_levels_spec(), env),
//@end
//@fn file=crates/oxidd-rules-zbdd/src/apply_rec.rs path=impl:BooleanFunction~for~ZBDDFunction<F>/fn:and_edge props=C02
//@header
fn and_edge<M>(manager: &M, lhs: &M::Edge, rhs: &M::Edge) -> (res: AllocResult<M::Edge>)
where M: Manager<Terminal = ZBDDTerminal> + HasApplyCache<M, ZBDDOp> + HasZBDDCache<M::Edge>, M::InnerNode: HasLevel,
//@spec
    requires edge_ok::<M::Edge>(), zcache_ok(manager), ok(lhs.view(), manager.num_levels_spec()), ok(rhs.view(), manager.num_levels_spec()),
    ensures res is Ok ==> ok(res->Ok_0.view(), manager.num_levels_spec())
        && forall|env: Env| #[trigger] bsem(res->Ok_0.view(), manager.num_levels_spec(), env)
            == prop_and(bsem(lhs.view(), manager.num_levels_spec(), env), bsem(rhs.view(), manager.num_levels_spec(), env)),
//@end
//@fn file=crates/oxidd-rules-zbdd/src/apply_rec.rs path=mod:mt/impl:BooleanFunction~for~ZBDDFunctionMT<F>/fn:and_edge name=and_edge__mt props=C02
//@header
fn and_edge__mt<M>(manager: &M, lhs: &M::Edge, rhs: &M::Edge) -> (res: AllocResult<M::Edge>)
where M: Manager<Terminal = ZBDDTerminal> + HasApplyCache<M, ZBDDOp> + HasZBDDCache<M::Edge>, M::InnerNode: HasLevel,
//@spec
    requires edge_ok::<M::Edge>(), zcache_ok(manager), ok(lhs.view(), manager.num_levels_spec()), ok(rhs.view(), manager.num_levels_spec()),
    ensures res is Ok ==> ok(res->Ok_0.view(), manager.num_levels_spec())
        && forall|env: Env| #[trigger] bsem(res->Ok_0.view(), manager.num_levels_spec(), env)
            == prop_and(bsem(lhs.view(), manager.num_levels_spec(), env), bsem(rhs.view(), manager.num_levels_spec(), env)),
//@end
//@fn file=crates/oxidd-rules-zbdd/src/apply_rec.rs path=impl:BooleanFunction~for~ZBDDFunction<F>/fn:or_edge props=C02
//@header
fn or_edge<M>(manager: &M, lhs: &M::Edge, rhs: &M::Edge) -> (res: AllocResult<M::Edge>)
where M: Manager<Terminal = ZBDDTerminal> + HasApplyCache<M, ZBDDOp> + HasZBDDCache<M::Edge>, M::InnerNode: HasLevel,
//@spec
    requires edge_ok::<M::Edge>(), zcache_ok(manager), ok(lhs.view(), manager.num_levels_spec()), ok(rhs.view(), manager.num_levels_spec()),
    ensures res is Ok ==> ok(res->Ok_0.view(), manager.num_levels_spec())
        && forall|env: Env| #[trigger] bsem(res->Ok_0.view(), manager.num_levels_spec(), env)
            == prop_or(bsem(lhs.view(), manager.num_levels_spec(), env), bsem(rhs.view(), manager.num_levels_spec(), env)),
//@end
//@fn file=crates/oxidd-rules-zbdd/src/apply_rec.rs path=mod:mt/impl:BooleanFunction~for~ZBDDFunctionMT<F>/fn:or_edge name=or_edge__mt props=C02
//@header
fn or_edge__mt<M>(manager: &M, lhs: &M::Edge, rhs: &M::Edge) -> (res: AllocResult<M::Edge>)
where M: Manager<Terminal = ZBDDTerminal> + HasApplyCache<M, ZBDDOp> + HasZBDDCache<M::Edge>, M::InnerNode: HasLevel,
//@spec
    requires edge_ok::<M::Edge>(), zcache_ok(manager), ok(lhs.view(), manager.num_levels_spec()), ok(rhs.view(), manager.num_levels_spec()),
    ensures res is Ok ==> ok(res->Ok_0.view(), manager.num_levels_spec())
        && forall|env: Env| #[trigger] bsem(res->Ok_0.view(), manager.num_levels_spec(), env)
            == prop_or(bsem(lhs.view(), manager.num_levels_spec(), env), bsem(rhs.view(), manager.num_levels_spec(), env)),
//@end
//@fn file=crates/oxidd-rules-zbdd/src/apply_rec.rs path=impl:BooleanFunction~for~ZBDDFunction<F>/fn:nand_edge props=C02 selfcall=Self::>
//@header
fn nand_edge<M>(manager: &M, lhs: &M::Edge, rhs: &M::Edge) -> (res: AllocResult<M::Edge>)
where M: Manager<Terminal = ZBDDTerminal> + HasApplyCache<M, ZBDDOp> + HasZBDDCache<M::Edge>, M::InnerNode: HasLevel,
//@spec
    requires edge_ok::<M::Edge>(), zcache_ok(manager), ok(lhs.view(), manager.num_levels_spec()), ok(rhs.view(), manager.num_levels_spec()),
    ensures res is Ok ==> ok(res->Ok_0.view(), manager.num_levels_spec())
        && forall|env: Env| #[trigger] bsem(res->Ok_0.view(), manager.num_levels_spec(), env)
            == prop_nand(bsem(lhs.view(), manager.num_levels_spec(), env), bsem(rhs.view(), manager.num_levels_spec(), env)),
//@end
//@fn file=crates/oxidd-rules-zbdd/src/apply_rec.rs path=mod:mt/impl:BooleanFunction~for~ZBDDFunctionMT<F>/fn:nand_edge name=nand_edge__mt props=C02
//@header
fn nand_edge__mt<M>(manager: &M, lhs: &M::Edge, rhs: &M::Edge) -> (res: AllocResult<M::Edge>)
where M: Manager<Terminal = ZBDDTerminal> + HasApplyCache<M, ZBDDOp> + HasZBDDCache<M::Edge>, M::InnerNode: HasLevel,
//@spec
    requires edge_ok::<M::Edge>(), zcache_ok(manager), ok(lhs.view(), manager.num_levels_spec()), ok(rhs.view(), manager.num_levels_spec()),
    ensures res is Ok ==> ok(res->Ok_0.view(), manager.num_levels_spec())
        && forall|env: Env| #[trigger] bsem(res->Ok_0.view(), manager.num_levels_spec(), env)
            == prop_nand(bsem(lhs.view(), manager.num_levels_spec(), env), bsem(rhs.view(), manager.num_levels_spec(), env)),
//@end
//@fn file=crates/oxidd-rules-zbdd/src/apply_rec.rs path=impl:BooleanFunction~for~ZBDDFunction<F>/fn:nor_edge props=C02 selfcall=Self::>
//@header
fn nor_edge<M>(manager: &M, lhs: &M::Edge, rhs: &M::Edge) -> (res: AllocResult<M::Edge>)
where M: Manager<Terminal = ZBDDTerminal> + HasApplyCache<M, ZBDDOp> + HasZBDDCache<M::Edge>, M::InnerNode: HasLevel,
//@spec
    requires edge_ok::<M::Edge>(), zcache_ok(manager), ok(lhs.view(), manager.num_levels_spec()), ok(rhs.view(), manager.num_levels_spec()),
    ensures res is Ok ==> ok(res->Ok_0.view(), manager.num_levels_spec())
        && forall|env: Env| #[trigger] bsem(res->Ok_0.view(), manager.num_levels_spec(), env)
            == prop_nor(bsem(lhs.view(), manager.num_levels_spec(), env), bsem(rhs.view(), manager.num_levels_spec(), env)),
//@end
//@fn file=crates/oxidd-rules-zbdd/src/apply_rec.rs path=mod:mt/impl:BooleanFunction~for~ZBDDFunctionMT<F>/fn:nor_edge name=nor_edge__mt props=C02
//@header
fn nor_edge__mt<M>(manager: &M, lhs: &M::Edge, rhs: &M::Edge) -> (res: AllocResult<M::Edge>)
where M: Manager<Terminal = ZBDDTerminal> + HasApplyCache<M, ZBDDOp> + HasZBDDCache<M::Edge>, M::InnerNode: HasLevel,
//@spec
    requires edge_ok::<M::Edge>(), zcache_ok(manager), ok(lhs.view(), manager.num_levels_spec()), ok(rhs.view(), manager.num_levels_spec()),
    ensures res is Ok ==> ok(res->Ok_0.view(), manager.num_levels_spec())
        && forall|env: Env| #[trigger] bsem(res->Ok_0.view(), manager.num_levels_spec(), env)
            == prop_nor(bsem(lhs.view(), manager.num_levels_spec(), env), bsem(rhs.view(), manager.num_levels_spec(), env)),
//@end
//@fn file=crates/oxidd-rules-zbdd/src/apply_rec.rs path=impl:BooleanFunction~for~ZBDDFunction<F>/fn:xor_edge props=C02
//@header
fn xor_edge<M>(manager: &M, lhs: &M::Edge, rhs: &M::Edge) -> (res: AllocResult<M::Edge>)
where M: Manager<Terminal = ZBDDTerminal> + HasApplyCache<M, ZBDDOp> + HasZBDDCache<M::Edge>, M::InnerNode: HasLevel,
//@spec
    requires edge_ok::<M::Edge>(), zcache_ok(manager), ok(lhs.view(), manager.num_levels_spec()), ok(rhs.view(), manager.num_levels_spec()),
    ensures res is Ok ==> ok(res->Ok_0.view(), manager.num_levels_spec())
        && forall|env: Env| #[trigger] bsem(res->Ok_0.view(), manager.num_levels_spec(), env)
            == prop_xor(bsem(lhs.view(), manager.num_levels_spec(), env), bsem(rhs.view(), manager.num_levels_spec(), env)),
//@end
//@fn file=crates/oxidd-rules-zbdd/src/apply_rec.rs path=mod:mt/impl:BooleanFunction~for~ZBDDFunctionMT<F>/fn:xor_edge name=xor_edge__mt props=C02
//@header
fn xor_edge__mt<M>(manager: &M, lhs: &M::Edge, rhs: &M::Edge) -> (res: AllocResult<M::Edge>)
where M: Manager<Terminal = ZBDDTerminal> + HasApplyCache<M, ZBDDOp> + HasZBDDCache<M::Edge>, M::InnerNode: HasLevel,
//@spec
    requires edge_ok::<M::Edge>(), zcache_ok(manager), ok(lhs.view(), manager.num_levels_spec()), ok(rhs.view(), manager.num_levels_spec()),
    ensures res is Ok ==> ok(res->Ok_0.view(), manager.num_levels_spec())
        && forall|env: Env| #[trigger] bsem(res->Ok_0.view(), manager.num_levels_spec(), env)
            == prop_xor(bsem(lhs.view(), manager.num_levels_spec(), env), bsem(rhs.view(), manager.num_levels_spec(), env)),
//@end
//@fn file=crates/oxidd-rules-zbdd/src/apply_rec.rs path=impl:BooleanFunction~for~ZBDDFunction<F>/fn:equiv_edge props=C02 selfcall=Self::>
//@header
fn equiv_edge<M>(manager: &M, lhs: &M::Edge, rhs: &M::Edge) -> (res: AllocResult<M::Edge>)
where M: Manager<Terminal = ZBDDTerminal> + HasApplyCache<M, ZBDDOp> + HasZBDDCache<M::Edge>, M::InnerNode: HasLevel,
//@spec
    requires edge_ok::<M::Edge>(), zcache_ok(manager), ok(lhs.view(), manager.num_levels_spec()), ok(rhs.view(), manager.num_levels_spec()),
    ensures res is Ok ==> ok(res->Ok_0.view(), manager.num_levels_spec())
        && forall|env: Env| #[trigger] bsem(res->Ok_0.view(), manager.num_levels_spec(), env)
            == prop_equiv(bsem(lhs.view(), manager.num_levels_spec(), env), bsem(rhs.view(), manager.num_levels_spec(), env)),
//@end
//@fn file=crates/oxidd-rules-zbdd/src/apply_rec.rs path=mod:mt/impl:BooleanFunction~for~ZBDDFunctionMT<F>/fn:equiv_edge name=equiv_edge__mt props=C02
//@header
fn equiv_edge__mt<M>(manager: &M, lhs: &M::Edge, rhs: &M::Edge) -> (res: AllocResult<M::Edge>)
where M: Manager<Terminal = ZBDDTerminal> + HasApplyCache<M, ZBDDOp> + HasZBDDCache<M::Edge>, M::InnerNode: HasLevel,
//@spec
    requires edge_ok::<M::Edge>(), zcache_ok(manager), ok(lhs.view(), manager.num_levels_spec()), ok(rhs.view(), manager.num_levels_spec()),
    ensures res is Ok ==> ok(res->Ok_0.view(), manager.num_levels_spec())
        && forall|env: Env| #[trigger] bsem(res->Ok_0.view(), manager.num_levels_spec(), env)
            == prop_equiv(bsem(lhs.view(), manager.num_levels_spec(), env), bsem(rhs.view(), manager.num_levels_spec(), env)),
//@end
//@fn file=crates/oxidd-rules-zbdd/src/apply_rec.rs path=impl:BooleanFunction~for~ZBDDFunction<F>/fn:imp_edge props=C02 selfcall=Self::>
//@header
fn imp_edge<M>(manager: &M, lhs: &M::Edge, rhs: &M::Edge) -> (res: AllocResult<M::Edge>)
where M: Manager<Terminal = ZBDDTerminal> + HasApplyCache<M, ZBDDOp> + HasZBDDCache<M::Edge>, M::InnerNode: HasLevel,
//@spec
    requires edge_ok::<M::Edge>(), zcache_ok(manager), ok(lhs.view(), manager.num_levels_spec()), ok(rhs.view(), manager.num_levels_spec()),
    ensures res is Ok ==> ok(res->Ok_0.view(), manager.num_levels_spec())
        && forall|env: Env| #[trigger] bsem(res->Ok_0.view(), manager.num_levels_spec(), env)
            == prop_imp(bsem(lhs.view(), manager.num_levels_spec(), env), bsem(rhs.view(), manager.num_levels_spec(), env)),
//@end
//@fn file=crates/oxidd-rules-zbdd/src/apply_rec.rs path=mod:mt/impl:BooleanFunction~for~ZBDDFunctionMT<F>/fn:imp_edge name=imp_edge__mt props=C02
//@header
fn imp_edge__mt<M>(manager: &M, lhs: &M::Edge, rhs: &M::Edge) -> (res: AllocResult<M::Edge>)
where M: Manager<Terminal = ZBDDTerminal> + HasApplyCache<M, ZBDDOp> + HasZBDDCache<M::Edge>, M::InnerNode: HasLevel,
//@spec
    requires edge_ok::<M::Edge>(), zcache_ok(manager), ok(lhs.view(), manager.num_levels_spec()), ok(rhs.view(), manager.num_levels_spec()),
    ensures res is Ok ==> ok(res->Ok_0.view(), manager.num_levels_spec())
        && forall|env: Env| #[trigger] bsem(res->Ok_0.view(), manager.num_levels_spec(), env)
            == prop_imp(bsem(lhs.view(), manager.num_levels_spec(), env), bsem(rhs.view(), manager.num_levels_spec(), env)),
//@end
//@fn file=crates/oxidd-rules-zbdd/src/apply_rec.rs path=impl:BooleanFunction~for~ZBDDFunction<F>/fn:imp_strict_edge props=C02
//@header
fn imp_strict_edge<M>(manager: &M, lhs: &M::Edge, rhs: &M::Edge) -> (res: AllocResult<M::Edge>)
where M: Manager<Terminal = ZBDDTerminal> + HasApplyCache<M, ZBDDOp> + HasZBDDCache<M::Edge>, M::InnerNode: HasLevel,
//@spec
    requires edge_ok::<M::Edge>(), zcache_ok(manager), ok(lhs.view(), manager.num_levels_spec()), ok(rhs.view(), manager.num_levels_spec()),
    ensures res is Ok ==> ok(res->Ok_0.view(), manager.num_levels_spec())
        && forall|env: Env| #[trigger] bsem(res->Ok_0.view(), manager.num_levels_spec(), env)
            == prop_imp_strict(bsem(lhs.view(), manager.num_levels_spec(), env), bsem(rhs.view(), manager.num_levels_spec(), env)),
//@end
//@fn file=crates/oxidd-rules-zbdd/src/apply_rec.rs path=mod:mt/impl:BooleanFunction~for~ZBDDFunctionMT<F>/fn:imp_strict_edge name=imp_strict_edge__mt props=C02
//@header
fn imp_strict_edge__mt<M>(manager: &M, lhs: &M::Edge, rhs: &M::Edge) -> (res: AllocResult<M::Edge>)
where M: Manager<Terminal = ZBDDTerminal> + HasApplyCache<M, ZBDDOp> + HasZBDDCache<M::Edge>, M::InnerNode: HasLevel,
//@spec
    requires edge_ok::<M::Edge>(), zcache_ok(manager), ok(lhs.view(), manager.num_levels_spec()), ok(rhs.view(), manager.num_levels_spec()),
    ensures res is Ok ==> ok(res->Ok_0.view(), manager.num_levels_spec())
        && forall|env: Env| #[trigger] bsem(res->Ok_0.view(), manager.num_levels_spec(), env)
            == prop_imp_strict(bsem(lhs.view(), manager.num_levels_spec(), env), bsem(rhs.view(), manager.num_levels_spec(), env)),
//@end
//@fn file=crates/oxidd-rules-zbdd/src/apply_rec.rs path=impl:BooleanFunction~for~ZBDDFunction<F>/fn:ite_edge props=C02
//@header
fn ite_edge<M>(manager: &M, f: &M::Edge, g: &M::Edge, h: &M::Edge) -> (res: AllocResult<M::Edge>)
where M: Manager<Terminal = ZBDDTerminal> + HasApplyCache<M, ZBDDOp> + HasZBDDCache<M::Edge>, M::InnerNode: HasLevel,
//@spec
    requires edge_ok::<M::Edge>(), zcache_ok(manager), ok(f.view(), manager.num_levels_spec()), ok(g.view(), manager.num_levels_spec()), ok(h.view(), manager.num_levels_spec()),
    ensures res is Ok ==> ok(res->Ok_0.view(), manager.num_levels_spec())
        && forall|env: Env| #[trigger] bsem(res->Ok_0.view(), manager.num_levels_spec(), env)
            == (if bsem(f.view(), manager.num_levels_spec(), env) { bsem(g.view(), manager.num_levels_spec(), env) } else { bsem(h.view(), manager.num_levels_spec(), env) }),
//@end
//@fn file=crates/oxidd-rules-zbdd/src/apply_rec.rs path=mod:mt/impl:BooleanFunction~for~ZBDDFunctionMT<F>/fn:ite_edge name=ite_edge__mt props=C02
//@header
fn ite_edge__mt<M>(manager: &M, f: &M::Edge, g: &M::Edge, h: &M::Edge) -> (res: AllocResult<M::Edge>)
where M: Manager<Terminal = ZBDDTerminal> + HasApplyCache<M, ZBDDOp> + HasZBDDCache<M::Edge>, M::InnerNode: HasLevel,
//@spec
    requires edge_ok::<M::Edge>(), zcache_ok(manager), ok(f.view(), manager.num_levels_spec()), ok(g.view(), manager.num_levels_spec()), ok(h.view(), manager.num_levels_spec()),
    ensures res is Ok ==> ok(res->Ok_0.view(), manager.num_levels_spec())
        && forall|env: Env| #[trigger] bsem(res->Ok_0.view(), manager.num_levels_spec(), env)
            == (if bsem(f.view(), manager.num_levels_spec(), env) { bsem(g.view(), manager.num_levels_spec(), env) } else { bsem(h.view(), manager.num_levels_spec(), env) }),
//@end
// ---------- default methods of BooleanVecSet in oxidd-core/src/function.rs (the user-facing API; rule R15) ----------
//@fn file=crates/oxidd-core/src/function.rs path=trait:BooleanVecSet/fn:union rename=api_union selfcall=Self::> withmgr=this props=C09
//@header
fn api_union<M>(manager: &M, this: &M::Edge, rhs: &M::Edge) -> (res: AllocResult<M::Edge>)
where M: Manager<Terminal = ZBDDTerminal> + HasApplyCache<M, ZBDDOp> + HasZBDDCache<M::Edge>, M::InnerNode: HasLevel,
//@spec
    requires edge_ok::<M::Edge>(), ok(this.view(), manager.num_levels_spec()), ok(rhs.view(), manager.num_levels_spec()),
    ensures res is Ok ==> union_post(this.view(), rhs.view(), manager.num_levels_spec(), res->Ok_0.view()),
//@end
//@fn file=crates/oxidd-core/src/function.rs path=trait:BooleanVecSet/fn:intsec rename=api_intsec selfcall=Self::> withmgr=this props=C09
//@header
fn api_intsec<M>(manager: &M, this: &M::Edge, rhs: &M::Edge) -> (res: AllocResult<M::Edge>)
where M: Manager<Terminal = ZBDDTerminal> + HasApplyCache<M, ZBDDOp> + HasZBDDCache<M::Edge>, M::InnerNode: HasLevel,
//@spec
    requires edge_ok::<M::Edge>(), ok(this.view(), manager.num_levels_spec()), ok(rhs.view(), manager.num_levels_spec()),
    ensures res is Ok ==> intsec_post(this.view(), rhs.view(), manager.num_levels_spec(), res->Ok_0.view()),
//@end
//@fn file=crates/oxidd-core/src/function.rs path=trait:BooleanVecSet/fn:diff rename=api_diff selfcall=Self::> withmgr=this props=C09
//@header
fn api_diff<M>(manager: &M, this: &M::Edge, rhs: &M::Edge) -> (res: AllocResult<M::Edge>)
where M: Manager<Terminal = ZBDDTerminal> + HasApplyCache<M, ZBDDOp> + HasZBDDCache<M::Edge>, M::InnerNode: HasLevel,
//@spec
    requires edge_ok::<M::Edge>(), ok(this.view(), manager.num_levels_spec()), ok(rhs.view(), manager.num_levels_spec()),
    ensures res is Ok ==> diff_post(this.view(), rhs.view(), manager.num_levels_spec(), res->Ok_0.view()),
//@end
//@fn file=crates/oxidd-core/src/function.rs path=trait:BooleanVecSet/fn:subset0 rename=api_subset0 selfcall=Self::> withmgr=this props=C09
//@header
fn api_subset0<M>(manager: &M, this: &M::Edge, var: VarNo) -> (res: AllocResult<M::Edge>)
where M: Manager<Terminal = ZBDDTerminal> + HasApplyCache<M, ZBDDOp> + HasZBDDCache<M::Edge>, M::InnerNode: HasLevel,
//@spec
    requires edge_ok::<M::Edge>(), ok(this.view(), manager.num_levels_spec()), (var as int) < manager.num_levels_spec(),
    ensures res is Ok ==> subset0_post(this.view(), manager.var_to_level_spec(var as int), manager.num_levels_spec(), res->Ok_0.view()),
//@end
//@fn file=crates/oxidd-core/src/function.rs path=trait:BooleanVecSet/fn:subset1 rename=api_subset1 selfcall=Self::> withmgr=this props=C09
//@header
fn api_subset1<M>(manager: &M, this: &M::Edge, var: VarNo) -> (res: AllocResult<M::Edge>)
where M: Manager<Terminal = ZBDDTerminal> + HasApplyCache<M, ZBDDOp> + HasZBDDCache<M::Edge>, M::InnerNode: HasLevel,
//@spec
    requires edge_ok::<M::Edge>(), ok(this.view(), manager.num_levels_spec()), (var as int) < manager.num_levels_spec(),
    ensures res is Ok ==> subset1_post(this.view(), manager.var_to_level_spec(var as int), manager.num_levels_spec(), res->Ok_0.view()),
//@end
//@fn file=crates/oxidd-core/src/function.rs path=trait:BooleanVecSet/fn:change rename=api_change selfcall=Self::> withmgr=this props=C09
//@header
fn api_change<M>(manager: &M, this: &M::Edge, var: VarNo) -> (res: AllocResult<M::Edge>)
where M: Manager<Terminal = ZBDDTerminal> + HasApplyCache<M, ZBDDOp> + HasZBDDCache<M::Edge>, M::InnerNode: HasLevel,
//@spec
    requires edge_ok::<M::Edge>(), ok(this.view(), manager.num_levels_spec()), (var as int) < manager.num_levels_spec(),
    ensures res is Ok ==> change_post(this.view(), manager.var_to_level_spec(var as int), manager.num_levels_spec(), res->Ok_0.view()),
//@end
} // mod apply_rec_w
pub mod apply_rec_v {
use super::*;
broadcast use {leaf_lemmas, taut_lemmas, chain_lemmas};
// C02: the variable constructor (its for-loop gets an invariant via rule R17)
//@fn file=crates/oxidd-rules-zbdd/src/apply_rec.rs path=impl:BooleanFunction~for~ZBDDFunction<F>/fn:var_edge props=C02,C03 forinv=0
//@header
fn var_edge<M>(manager: &M, var: VarNo) -> (res: AllocResult<M::Edge>)
where M: Manager<Terminal = ZBDDTerminal> + HasApplyCache<M, ZBDDOp> + HasZBDDCache<M::Edge>, M::InnerNode: HasLevel,
//@spec
    requires zcache_ok(manager), (var as int) < manager.num_levels_spec(),
    // exactly the diagram of the Boolean function x_var (see lemma var_tree_is_variable)
    ensures res is Ok ==> res->Ok_0.view() == var_tree(manager.var_to_level_spec(var as int), manager.num_levels_spec()),
//@loop
    invariant
        (level as int) < manager.num_levels_spec() < u32::MAX, iter__0.rem().len() <= level,
        forall|i: int| 0 <= i < iter__0.rem().len() ==> #[trigger] iter__0.rem()[i] == iter__0.rem().len() - 1 - i,
        edge.view() == dc_chain(iter__0.rem().len() as int, level as int, mk(level, taut_tree(level as int + 1, manager.num_levels_spec()), ee())),
    ensures
        edge.view() == dc_chain(0, level as int, mk(level, taut_tree(level as int + 1, manager.num_levels_spec()), ee())),
    decreases iter__0.rem().len(),
//@end
//@fn file=crates/oxidd-rules-zbdd/src/apply_rec.rs path=mod:mt/impl:BooleanFunction~for~ZBDDFunctionMT<F>/fn:var_edge name=var_edge__mt props=C02,C03 subst_text=ZBDDFunction::<F>::::=
//@header
fn var_edge__mt<M>(manager: &M, var: VarNo) -> (res: AllocResult<M::Edge>)
where M: Manager<Terminal = ZBDDTerminal> + HasApplyCache<M, ZBDDOp> + HasZBDDCache<M::Edge>, M::InnerNode: HasLevel,
//@spec
    requires zcache_ok(manager), (var as int) < manager.num_levels_spec(),
    // exactly the diagram of the Boolean function x_var (see lemma var_tree_is_variable)
    ensures res is Ok ==> res->Ok_0.view() == var_tree(manager.var_to_level_spec(var as int), manager.num_levels_spec()),
//@end
} // mod apply_rec_v
pub mod apply_rec_r {
use super::*;
use super::apply_rec::*;
#[allow(unused_imports)] use crate::ZBDDTerminal::*;  // the nested fn `restrict_base` sees the `use ZBDDTerminal::*` of its parent body
broadcast use {leaf_lemmas, upd_lemmas, restrict_lemmas, rb_lemmas, taut_lemmas};
// nested fn with a `for` loop over a reversed range: proved via rule R17 (loop invariant spliced, `(a..b).rev()` -> stub RevRange)
//@fn file=crates/oxidd-rules-zbdd/src/apply_rec.rs path=fn:restrict/fn:restrict_base rename=restrict__restrict_base forinv=0 props=C04
//@spec
    requires edge_ok::<M::Edge>(), zcache_ok(manager), ok(vars.view(), manager.num_levels_spec()), is_cube(vars.view()),
        (level as int) <= top(vars.view()), (level as int) <= manager.num_levels_spec() <= u32::MAX,
    ensures res is Ok ==> res->Ok_0.view() == rb_model(vars.view(), level as int, manager.num_levels_spec())
        && restrict_post(bb(), vars.view(), level as int, manager.num_levels_spec(), res->Ok_0.view()),
    decreases vars.view(),
//@loop
    invariant
        iter__0.lo == level, level <= iter__0.cur <= node_level, (node_level as int) < manager.num_levels_spec() <= u32::MAX,
        res.view() == dc_chain(iter__0.cur as int, node_level as int, rb_model(hi.view(), node_level as int + 1, manager.num_levels_spec())),
    ensures
        res.view() == dc_chain(level as int, node_level as int, rb_model(hi.view(), node_level as int + 1, manager.num_levels_spec())),
    decreases iter__0.cur - iter__0.lo,
//@end
//@fn file=crates/oxidd-rules-zbdd/src/apply_rec.rs path=fn:restrict hoist=restrict_base>restrict__restrict_base nodecr props=C04,C06 vis=pub(crate)
//@spec
    requires edge_ok::<M::Edge>(), zcache_ok(manager), ok(f.view(), manager.num_levels_spec()), ok(vars.view(), manager.num_levels_spec()), is_cube(vars.view()),
        (level as int) <= top(f.view()), (level as int) <= top(vars.view()), (level as int) <= manager.num_levels_spec() <= u32::MAX,
    ensures res is Ok ==> restrict_post(f.view(), vars.view(), level as int, manager.num_levels_spec(), res->Ok_0.view()),
//@end
//@fn file=crates/oxidd-rules-zbdd/src/apply_rec.rs path=impl:BooleanFunction~for~ZBDDFunction<F>/fn:restrict_edge props=C04
//@header
fn restrict_edge<M>(manager: &M, root: &M::Edge, vars: &M::Edge) -> (res: AllocResult<M::Edge>)
where M: Manager<Terminal = ZBDDTerminal> + HasApplyCache<M, ZBDDOp> + HasZBDDCache<M::Edge>, M::InnerNode: HasLevel,
//@spec
    requires edge_ok::<M::Edge>(), zcache_ok(manager), ok(root.view(), manager.num_levels_spec()), ok(vars.view(), manager.num_levels_spec()), is_cube(vars.view()),
        0 <= manager.num_levels_spec() <= u32::MAX,
    ensures res is Ok ==> ok(res->Ok_0.view(), manager.num_levels_spec())
        && forall|env: Env| #[trigger] bsem(res->Ok_0.view(), manager.num_levels_spec(), env) == bsem(root.view(), manager.num_levels_spec(), cube_env(vars.view(), env)),
//@end
//@fn file=crates/oxidd-rules-zbdd/src/apply_rec.rs path=mod:mt/impl:BooleanFunction~for~ZBDDFunctionMT<F>/fn:restrict_edge name=restrict_edge__mt props=C04
//@header
fn restrict_edge__mt<M>(manager: &M, root: &M::Edge, vars: &M::Edge) -> (res: AllocResult<M::Edge>)
where M: Manager<Terminal = ZBDDTerminal> + HasApplyCache<M, ZBDDOp> + HasZBDDCache<M::Edge>, M::InnerNode: HasLevel,
//@spec
    requires edge_ok::<M::Edge>(), zcache_ok(manager), ok(root.view(), manager.num_levels_spec()), ok(vars.view(), manager.num_levels_spec()), is_cube(vars.view()),
        0 <= manager.num_levels_spec() <= u32::MAX,
    ensures res is Ok ==> ok(res->Ok_0.view(), manager.num_levels_spec())
        && forall|env: Env| #[trigger] bsem(res->Ok_0.view(), manager.num_levels_spec(), env) == bsem(root.view(), manager.num_levels_spec(), cube_env(vars.view(), env)),
//@end
} // mod apply_rec_r
pub mod apply_rec_pv {
use super::*;
broadcast use {leaf_lemmas, upd_lemmas};
//@fn file=crates/oxidd-rules-zbdd/src/apply_rec.rs path=impl:BooleanFunction~for~ZBDDFunction<F>/fn:pick_cube_edge/fn:inner rename=pick_cube_edge__inner props=C13
//@spec
    requires edge_ok::<M::Edge>(), ok(edge.view(), manager.num_levels_spec()), edge.view() != ee(),
        old(cube)@.len() == manager.num_levels_spec(),
        // the slots of all levels the diagram can still decide are at their initial value (variable absent)
        forall|l: int| top(edge.view()) <= l < manager.num_levels_spec() ==> old(cube)@[#[trigger] manager.level_to_var_spec(l)] == OptBool::False,
        forall|l: int| 0 <= l < manager.num_levels_spec() ==> 0 <= #[trigger] manager.level_to_var_spec(l) < manager.num_levels_spec() && manager.var_to_level_spec(manager.level_to_var_spec(l)) == l,
        // the choice function may be consulted only on a node whose two children differ and whose lo-child is satisfiable
        forall|mm: &M, ee_: &M::Edge, l: LevelNo| (ee_.view() matches Tree::Inner(k, a, b) && k == l && *a != *b && *b != ee()) ==> #[trigger] choice.requires((mm, ee_, l)),
    ensures final(cube)@.len() == old(cube)@.len(),
        forall|l: int| 0 <= l < top(edge.view()) && l < manager.num_levels_spec() ==> final(cube)@[#[trigger] manager.level_to_var_spec(l)] == old(cube)@[manager.level_to_var_spec(l)],
        // every set over the levels top..n that the written literals admit is a member of the family
        forall|s: Env| (within(s, top(edge.view()), manager.num_levels_spec()) && zcube_allows(manager, final(cube)@, s, top(edge.view()))) ==> #[trigger] mem(edge.view(), s),
    decreases edge.view(),
//@end
//@fn file=crates/oxidd-rules-zbdd/src/apply_rec.rs path=impl:BooleanFunction~for~ZBDDFunction<F>/fn:pick_cube_edge hoist=inner>pick_cube_edge__inner ret=r props=C13
//@header
fn pick_cube_edge<'a, M>(manager: &'a M, edge: &'a M::Edge, choice: impl FnMut(&M, &M::Edge, LevelNo) -> bool) -> (r: Option<Vec<OptBool>>)
where M: Manager<Terminal = ZBDDTerminal> + HasApplyCache<M, ZBDDOp> + HasZBDDCache<M::Edge>, M::InnerNode: HasLevel,
//@spec
    requires edge_ok::<M::Edge>(), ok(edge.view(), manager.num_levels_spec()),
        forall|l: int| 0 <= l < manager.num_levels_spec() ==> 0 <= #[trigger] manager.level_to_var_spec(l) < manager.num_levels_spec() && manager.var_to_level_spec(manager.level_to_var_spec(l)) == l,
        forall|mm: &M, ee_: &M::Edge, l: LevelNo| (ee_.view() matches Tree::Inner(k, a, b) && k == l && *a != *b && *b != ee()) ==> #[trigger] choice.requires((mm, ee_, l)),
    // nothing exactly for the empty family; otherwise a vector (one entry per variable) whose literals imply the function
    ensures (r is None) == (edge.view() == ee()),
        r is Some ==> r->Some_0@.len() == manager.num_levels_spec()
            && forall|env: Env| zcube_allows(manager, r->Some_0@, set_of(env, manager.num_levels_spec()), 0) ==> #[trigger] bsem(edge.view(), manager.num_levels_spec(), env),
//@end
//@fn file=crates/oxidd-rules-zbdd/src/apply_rec.rs path=mod:mt/impl:BooleanFunction~for~ZBDDFunctionMT<F>/fn:pick_cube_edge name=pick_cube_edge__mt props=C13 ret=r subst_text=ZBDDFunction::<F>::::=
//@header
fn pick_cube_edge__mt<'a, M>(manager: &'a M, edge: &'a M::Edge, choice: impl FnMut(&M, &M::Edge, LevelNo) -> bool) -> (r: Option<Vec<OptBool>>)
where M: Manager<Terminal = ZBDDTerminal> + HasApplyCache<M, ZBDDOp> + HasZBDDCache<M::Edge>, M::InnerNode: HasLevel,
//@spec
    requires edge_ok::<M::Edge>(), ok(edge.view(), manager.num_levels_spec()),
        forall|l: int| 0 <= l < manager.num_levels_spec() ==> 0 <= #[trigger] manager.level_to_var_spec(l) < manager.num_levels_spec() && manager.var_to_level_spec(manager.level_to_var_spec(l)) == l,
        forall|mm: &M, ee_: &M::Edge, l: LevelNo| (ee_.view() matches Tree::Inner(k, a, b) && k == l && *a != *b && *b != ee()) ==> #[trigger] choice.requires((mm, ee_, l)),
    // nothing exactly for the empty family; otherwise a vector (one entry per variable) whose literals imply the function
    ensures (r is None) == (edge.view() == ee()),
        r is Some ==> r->Some_0@.len() == manager.num_levels_spec()
            && forall|env: Env| zcube_allows(manager, r->Some_0@, set_of(env, manager.num_levels_spec()), 0) ==> #[trigger] bsem(edge.view(), manager.num_levels_spec(), env),
//@end
} // mod apply_rec_pv
pub mod apply_rec_p {
use super::*;
broadcast use {leaf_lemmas, pick_lemmas};
//@fn file=crates/oxidd-rules-zbdd/src/apply_rec.rs path=impl:BooleanFunction~for~ZBDDFunction<F>/fn:pick_cube_dd_edge/fn:inner rename=pick_cube_dd_edge__inner props=C13
//@spec
    requires edge_ok::<M::Edge>(), ok(edge.view(), manager.num_levels_spec()),
        // the choice function may be consulted only with a node whose value is not forced (lo-child satisfiable; the hi-child always is)
        // and on which the function depends (hi != lo), and with that node's level
        forall|mm: &M, e2: &M::Edge, l: LevelNo| (e2.view() matches Tree::Inner(k, a, b) && k == l && *b != ee() && *a != *b) ==> #[trigger] choice.requires((mm, e2, l)),
    ensures res is Ok ==> zpick_ok(edge.view(), res->Ok_0.view()) && ok(res->Ok_0.view(), manager.num_levels_spec()),
        // wherever the value is not forced it is the value returned by the caller's choice function
        res is Ok ==> forall|o: spec_fn(Tree, u32) -> bool| (forall|mm: &M, e2: &M::Edge, l: LevelNo, r: bool| #[trigger] choice.ensures((mm, e2, l), r) ==> r == o(e2.view(), l))
            ==> #[trigger] zpick_follows(edge.view(), o, res->Ok_0.view()),
    decreases edge.view(),
//@end
//@fn file=crates/oxidd-rules-zbdd/src/apply_rec.rs path=impl:BooleanFunction~for~ZBDDFunction<F>/fn:pick_cube_dd_set_edge/fn:set_pop rename=pick_cube_dd_set_edge__set_pop ret=r props=C13
//@spec
    requires wf(edge.view()),
    ensures r.0.view() == zpopped(edge.view(), until as int),
        match r.1 { Some(node) => r.0.view() == mk(until, node.then_spec(), node.else_spec()) && node.level_spec() == until, None => top(r.0.view()) != until as int || r.0.view() is Leaf },
    decreases edge.view(),
//@end
//@fn file=crates/oxidd-rules-zbdd/src/apply_rec.rs path=impl:BooleanFunction~for~ZBDDFunction<F>/fn:pick_cube_dd_set_edge/fn:inner rename=pick_cube_dd_set_edge__inner subst=set_pop>pick_cube_dd_set_edge__set_pop props=C13
//@spec
    requires edge_ok::<M::Edge>(), ok(edge.view(), manager.num_levels_spec()), ok(literal_set.view(), manager.num_levels_spec()),
    ensures res is Ok ==> zpick_set_ok(edge.view(), literal_set.view(), res->Ok_0.view()) && ok(res->Ok_0.view(), manager.num_levels_spec()),
    decreases edge.view(),
//@end
//@fn file=crates/oxidd-rules-zbdd/src/apply_rec.rs path=impl:BooleanFunction~for~ZBDDFunction<F>/fn:pick_cube_dd_edge hoist=inner>pick_cube_dd_edge__inner props=C13
//@header
fn pick_cube_dd_edge<M>(manager: &M, edge: &M::Edge, choice: impl FnMut(&M, &M::Edge, LevelNo) -> bool) -> (res: AllocResult<M::Edge>)
where M: Manager<Terminal = ZBDDTerminal> + HasApplyCache<M, ZBDDOp> + HasZBDDCache<M::Edge>, M::InnerNode: HasLevel,
//@spec
    requires edge_ok::<M::Edge>(), ok(edge.view(), manager.num_levels_spec()),
        forall|mm: &M, e2: &M::Edge, l: LevelNo| (e2.view() matches Tree::Inner(k, a, b) && k == l && *b != ee() && *a != *b) ==> #[trigger] choice.requires((mm, e2, l)),
    ensures res is Ok ==> zpick_ok(edge.view(), res->Ok_0.view()) && ok(res->Ok_0.view(), manager.num_levels_spec()),
        res is Ok ==> forall|o: spec_fn(Tree, u32) -> bool| (forall|mm: &M, e2: &M::Edge, l: LevelNo, r: bool| #[trigger] choice.ensures((mm, e2, l), r) ==> r == o(e2.view(), l))
            ==> #[trigger] zpick_follows(edge.view(), o, res->Ok_0.view()),
//@end
//@fn file=crates/oxidd-rules-zbdd/src/apply_rec.rs path=mod:mt/impl:BooleanFunction~for~ZBDDFunctionMT<F>/fn:pick_cube_dd_edge name=pick_cube_dd_edge__mt props=C13 subst_text=ZBDDFunction::<F>::::=
//@header
fn pick_cube_dd_edge__mt<M>(manager: &M, edge: &M::Edge, choice: impl FnMut(&M, &M::Edge, LevelNo) -> bool) -> (res: AllocResult<M::Edge>)
where M: Manager<Terminal = ZBDDTerminal> + HasApplyCache<M, ZBDDOp> + HasZBDDCache<M::Edge>, M::InnerNode: HasLevel,
//@spec
    requires edge_ok::<M::Edge>(), ok(edge.view(), manager.num_levels_spec()),
        forall|mm: &M, e2: &M::Edge, l: LevelNo| (e2.view() matches Tree::Inner(k, a, b) && k == l && *b != ee() && *a != *b) ==> #[trigger] choice.requires((mm, e2, l)),
    ensures res is Ok ==> zpick_ok(edge.view(), res->Ok_0.view()) && ok(res->Ok_0.view(), manager.num_levels_spec()),
        res is Ok ==> forall|o: spec_fn(Tree, u32) -> bool| (forall|mm: &M, e2: &M::Edge, l: LevelNo, r: bool| #[trigger] choice.ensures((mm, e2, l), r) ==> r == o(e2.view(), l))
            ==> #[trigger] zpick_follows(edge.view(), o, res->Ok_0.view()),
//@end
//@fn file=crates/oxidd-rules-zbdd/src/apply_rec.rs path=impl:BooleanFunction~for~ZBDDFunction<F>/fn:pick_cube_dd_set_edge hoist=set_pop>pick_cube_dd_set_edge__set_pop,inner>pick_cube_dd_set_edge__inner props=C13
//@header
fn pick_cube_dd_set_edge<M>(manager: &M, edge: &M::Edge, literal_set: &M::Edge) -> (res: AllocResult<M::Edge>)
where M: Manager<Terminal = ZBDDTerminal> + HasApplyCache<M, ZBDDOp> + HasZBDDCache<M::Edge>, M::InnerNode: HasLevel,
//@spec
    requires edge_ok::<M::Edge>(), ok(edge.view(), manager.num_levels_spec()), ok(literal_set.view(), manager.num_levels_spec()),
    ensures res is Ok ==> zpick_set_ok(edge.view(), literal_set.view(), res->Ok_0.view()) && ok(res->Ok_0.view(), manager.num_levels_spec()),
//@end
//@fn file=crates/oxidd-rules-zbdd/src/apply_rec.rs path=mod:mt/impl:BooleanFunction~for~ZBDDFunctionMT<F>/fn:pick_cube_dd_set_edge name=pick_cube_dd_set_edge__mt props=C13 subst_text=ZBDDFunction::<F>::::=
//@header
fn pick_cube_dd_set_edge__mt<M>(manager: &M, edge: &M::Edge, literal_set: &M::Edge) -> (res: AllocResult<M::Edge>)
where M: Manager<Terminal = ZBDDTerminal> + HasApplyCache<M, ZBDDOp> + HasZBDDCache<M::Edge>, M::InnerNode: HasLevel,
//@spec
    requires edge_ok::<M::Edge>(), ok(edge.view(), manager.num_levels_spec()), ok(literal_set.view(), manager.num_levels_spec()),
    ensures res is Ok ==> zpick_set_ok(edge.view(), literal_set.view(), res->Ok_0.view()) && ok(res->Ok_0.view(), manager.num_levels_spec()),
//@end
} // mod apply_rec_p
pub mod apply_rec_c {
use super::*;
broadcast use {leaf_lemmas, count_lemmas};
//@fn file=crates/oxidd-rules-zbdd/src/apply_rec.rs path=impl:BooleanFunction~for~ZBDDFunction<F>/fn:sat_count_edge/fn:inner rename=sat_count_edge__inner props=C12
//@header
fn sat_count_edge__inner<M: Manager<Terminal = ZBDDTerminal>, N: SatCountNumber, S>(manager: &M, e: Borrowed<M::Edge>, cache: &mut SatCountCache<N, S>) -> (res: N)
//@spec
    requires num_ok::<N>(), wf(e.view()), cache_valid(old(cache)),
    ensures res.nv() == zcnt(e.view()), cache_valid(final(cache)),
    decreases e.view(),
//@end
// sat_count over `vars` variables: this unit flagged defect D7 (u32 underflow of `num_levels() - vars` for vars > num_levels; fixed in /repo)
//@fn file=crates/oxidd-rules-zbdd/src/apply_rec.rs path=impl:BooleanFunction~for~ZBDDFunction<F>/fn:sat_count_edge hoist=inner>sat_count_edge__inner props=C12
//@header
fn sat_count_edge<M: Manager<Terminal = ZBDDTerminal>, N: SatCountNumber, S>(manager: &M, edge: &M::Edge, vars: LevelNo, cache: &mut SatCountCache<N, S>) -> (res: N)
//@spec
    // no precondition relates `vars` to the number of levels: none is documented, and the property quantifies over vars > num_levels
    requires num_ok::<N>(), ok(edge.view(), manager.num_levels_spec()),
    // models over the manager's variables, scaled down when only the first `vars` variables are considered relevant
    // (for vars > num_levels the subtraction `num_levels() - vars` is already refuted as arithmetic underflow: FINDING)
    ensures (vars as int) <= manager.num_levels_spec() ==>
        res.nv() == zmodels(edge.view(), 0, manager.num_levels_spec()) / pow2((manager.num_levels_spec() - vars) as nat),
        // every variable beyond the manager's levels is unconstrained: it doubles the number of models
        (vars as int) >= manager.num_levels_spec() ==>
        res.nv() == zmodels(edge.view(), 0, manager.num_levels_spec()) * pow2((vars - manager.num_levels_spec()) as nat),
//@end
//@fn file=crates/oxidd-rules-zbdd/src/apply_rec.rs path=mod:mt/impl:BooleanFunction~for~ZBDDFunctionMT<F>/fn:sat_count_edge name=sat_count_edge__mt props=C12 subst_text=ZBDDFunction::<F>::::=
//@header
fn sat_count_edge__mt<M: Manager<Terminal = ZBDDTerminal>, N: SatCountNumber, S>(manager: &M, edge: &M::Edge, vars: LevelNo, cache: &mut SatCountCache<N, S>) -> (res: N)
//@spec
    // no precondition relates `vars` to the number of levels: none is documented, and the property quantifies over vars > num_levels
    requires num_ok::<N>(), ok(edge.view(), manager.num_levels_spec()),
    // models over the manager's variables, scaled down when only the first `vars` variables are considered relevant
    // (for vars > num_levels the subtraction `num_levels() - vars` is already refuted as arithmetic underflow: FINDING)
    ensures (vars as int) <= manager.num_levels_spec() ==>
        res.nv() == zmodels(edge.view(), 0, manager.num_levels_spec()) / pow2((manager.num_levels_spec() - vars) as nat),
        // every variable beyond the manager's levels is unconstrained: it doubles the number of models
        (vars as int) >= manager.num_levels_spec() ==>
        res.nv() == zmodels(edge.view(), 0, manager.num_levels_spec()) * pow2((vars - manager.num_levels_spec()) as nat),
//@end
} // mod apply_rec_c
pub mod apply_rec_e {
use super::*;
broadcast use {leaf_lemmas, eval_lemmas, zeval_lemmas};
//@fn file=crates/oxidd-rules-zbdd/src/apply_rec.rs path=impl:BooleanFunction~for~ZBDDFunction<F>/fn:eval_edge/fn:inner rename=eval_edge__inner ret=r props=C02
//@spec
    requires wf(edge.view()), eval_pre(edge.view(), values.bits@, ones as int),
    ensures r == evalp(edge.view(), values.bits@, ones as int),
        // `ones` = number of variables set to true, one bit per level: the node-by-node interpretation of the handle
        (ones as int == cnt(values.bits@, 0) && values.bits@.len() <= manager.num_levels_spec())
            ==> r == bsem(edge.view(), manager.num_levels_spec(), sof(values.bits@)),
        ones as int == cnt(values.bits@, 0) ==> r == mem(edge.view(), sof(values.bits@)),
    decreases edge.view(),
//@end
//@fn file=crates/oxidd-rules-zbdd/src/apply_rec.rs path=impl:BooleanFunction~for~ZBDDFunction<F>/fn:eval_edge hoist=inner>eval_edge__inner forinv=0 ret=r props=C02
//@header
fn eval_edge<M>(manager: &M, edge: &M::Edge, args: ArgIter) -> (r: bool)
where M: Manager<Terminal = ZBDDTerminal> + HasApplyCache<M, ZBDDOp> + HasZBDDCache<M::Edge>, M::InnerNode: HasLevel,
//@spec
    requires ok(edge.view(), manager.num_levels_spec()), args.done() == Seq::<(u32, bool)>::empty(),
        // documented panic otherwise
        forall|i: int| 0 <= i < args.all().len() ==> (#[trigger] args.all()[i].0 as int) < manager.num_levels_spec(),
    // the value of the Boolean function under the assignment given by the pairs (last value wins, unassigned variables false)
    ensures r == bsem(edge.view(), manager.num_levels_spec(), aenv(args.all(), vl(manager), all_false())),
//@loop
    invariant
        iter__0.all() == args.all(), iter__0.done().len() <= iter__0.all().len(),
        forall|i: int| 0 <= i < iter__0.all().len() ==> (#[trigger] iter__0.all()[i].0 as int) < manager.num_levels_spec(),
        manager.num_levels_spec() <= u32::MAX,
        zeval_inv(values.bits@, ones as int, iter__0.done(), vl(manager), manager.num_levels_spec()),
    ensures
        iter__0.all() == args.all(),
        zeval_inv(values.bits@, ones as int, iter__0.all(), vl(manager), manager.num_levels_spec()),
    decreases iter__0.all().len() - iter__0.done().len(),
//@end
//@fn file=crates/oxidd-rules-zbdd/src/apply_rec.rs path=mod:mt/impl:BooleanFunction~for~ZBDDFunctionMT<F>/fn:eval_edge name=eval_edge__mt props=C02 ret=r subst_text=ZBDDFunction::<F>::::=
//@header
fn eval_edge__mt<M>(manager: &M, edge: &M::Edge, args: ArgIter) -> (r: bool)
where M: Manager<Terminal = ZBDDTerminal> + HasApplyCache<M, ZBDDOp> + HasZBDDCache<M::Edge>, M::InnerNode: HasLevel,
//@spec
    requires ok(edge.view(), manager.num_levels_spec()), args.done() == Seq::<(u32, bool)>::empty(),
        // documented panic otherwise
        forall|i: int| 0 <= i < args.all().len() ==> (#[trigger] args.all()[i].0 as int) < manager.num_levels_spec(),
    // the value of the Boolean function under the assignment given by the pairs (last value wins, unassigned variables false)
    ensures r == bsem(edge.view(), manager.num_levels_spec(), aenv(args.all(), vl(manager), all_false())),
//@end
} // mod apply_rec_e

} // mod rules
} // verus!
fn main() {}
