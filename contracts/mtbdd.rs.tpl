// Contract bundle for crates/oxidd-rules-mtbdd/src/{lib,apply_rec}.rs  (C10 lifting, C06, C01 reduce)
// Terminals are abstract values (`int` codes) with uninterpreted arithmetic `s_add`, ... and exactly the
// algebraic laws the short-cuts of `terminal_bin` may rely on (NumLaws).  The laws are discharged for the
// concrete terminal types I64/F64 by the Kani suite kani/mtbdd_terminal (harness `laws_for_shortcuts`).
#![allow(unused_imports, dead_code, unused_variables, unused_mut, unused_parens, unused_braces, noop_method_call, unreachable_patterns)]
use vstd::prelude::*;
use std::borrow::Borrow;
use std::cmp::Ordering;
use vstd::std_specs::cmp::{PartialEqSpec, PartialOrdSpec, OrdSpec};
verus! {

// ---------- abstract view ----------
pub enum Tree { Leaf(int), Inner(u32, Box<Tree>, Box<Tree>) }
pub type Env = spec_fn(int) -> bool;

pub open spec fn top(t: Tree) -> int {
    match t { Tree::Leaf(_) => u32::MAX as int, Tree::Inner(l, _, _) => l as int }
}
pub open spec fn wf(t: Tree) -> bool decreases t {
    match t {
        Tree::Leaf(_) => true,
        Tree::Inner(l, a, b) => l < u32::MAX && (l as int) < top(*a) && (l as int) < top(*b) && *a != *b && wf(*a) && wf(*b),
    }
}
pub open spec fn below(t: Tree, n: int) -> bool decreases t {
    match t {
        Tree::Leaf(_) => true,
        Tree::Inner(l, a, b) => (l as int) < n && below(*a, n) && below(*b, n),
    }
}
/// value of the function under an assignment (indexed by level)
pub open spec fn val_at(t: Tree, env: Env) -> int decreases t {
    match t {
        Tree::Leaf(v) => v,
        Tree::Inner(l, a, b) => if env(l as int) { val_at(*a, env) } else { val_at(*b, env) },
    }
}
pub open spec fn mk(l: u32, a: Tree, b: Tree) -> Tree { Tree::Inner(l, Box::new(a), Box::new(b)) }
pub open spec fn ok(t: Tree, n: int) -> bool { wf(t) && below(t, n) }
pub broadcast proof fn lemma_val_mk(l: u32, a: Tree, b: Tree, env: Env)
    ensures #[trigger] val_at(mk(l, a, b), env) == (if env(l as int) { val_at(a, env) } else { val_at(b, env) }) {}
pub broadcast proof fn lemma_wf_mk(l: u32, a: Tree, b: Tree)
    ensures #[trigger] wf(mk(l, a, b)) == (l < u32::MAX && (l as int) < top(a) && (l as int) < top(b) && a != b && wf(a) && wf(b)) {}
pub broadcast proof fn lemma_below_mk(l: u32, a: Tree, b: Tree, n: int)
    ensures #[trigger] below(mk(l, a, b), n) == ((l as int) < n && below(a, n) && below(b, n)) {}
pub broadcast group leaf_lemmas { lemma_val_mk, lemma_wf_mk, lemma_below_mk }
pub open spec fn agree_from(e1: Env, e2: Env, m: int) -> bool { forall|i: int| i >= m ==> #[trigger] e1(i) == e2(i) }
pub proof fn lemma_val_agree(t: Tree, e1: Env, e2: Env)
    requires wf(t), agree_from(e1, e2, top(t)),
    ensures val_at(t, e1) == val_at(t, e2),
    decreases t,
{
    match t {
        Tree::Leaf(_) => {}
        Tree::Inner(l, a, b) => { lemma_val_agree(*a, e1, e2); lemma_val_agree(*b, e1, e2); }
    }
}

// ---------- canonicity (C01) for multi-terminal diagrams ----------
pub open spec fn upd(env: Env, l: int, v: bool) -> Env { |i: int| if i == l { v } else { env(i) } }
pub proof fn lemma_val_upd(t: Tree, env: Env, l: int, b: bool)
    requires wf(t), l < top(t),
    ensures val_at(t, upd(env, l, b)) == val_at(t, env),
{
    lemma_val_agree(t, upd(env, l, b), env);
}
//@lemma name=distinguish props=C01
pub proof fn distinguish(a: Tree, b: Tree) -> (env: Env)
    requires wf(a), wf(b), a != b,
    ensures val_at(a, env) != val_at(b, env),
    decreases a, b,
{
    match (a, b) {
        (Tree::Leaf(x), Tree::Leaf(y)) => { |i: int| true }
        (Tree::Inner(l, a1, a0), _) if top(b) > l => {
            if *a1 != b {
                let e = distinguish(*a1, b);
                lemma_val_upd(*a1, e, l as int, true); lemma_val_upd(b, e, l as int, true);
                upd(e, l as int, true)
            } else {
                let e = distinguish(*a0, b);
                lemma_val_upd(*a0, e, l as int, false); lemma_val_upd(b, e, l as int, false);
                upd(e, l as int, false)
            }
        }
        (Tree::Inner(l, a1, a0), Tree::Inner(k, b1, b0)) if k == l => {
            if *a1 != *b1 {
                let e = distinguish(*a1, *b1);
                lemma_val_upd(*a1, e, l as int, true); lemma_val_upd(*b1, e, l as int, true);
                upd(e, l as int, true)
            } else {
                let e = distinguish(*a0, *b0);
                lemma_val_upd(*a0, e, l as int, false); lemma_val_upd(*b0, e, l as int, false);
                upd(e, l as int, false)
            }
        }
        (_, Tree::Inner(k, b1, b0)) => {
            if a != *b1 {
                let e = distinguish(a, *b1);
                lemma_val_upd(a, e, k as int, true); lemma_val_upd(*b1, e, k as int, true);
                upd(e, k as int, true)
            } else {
                let e = distinguish(a, *b0);
                lemma_val_upd(a, e, k as int, false); lemma_val_upd(*b0, e, k as int, false);
                upd(e, k as int, false)
            }
        }
        _ => { assert(false); |i: int| true }
    }
}
/// same value table <=> identical diagram <=> (hash-consing contract) equal handles
//@lemma name=canonicity props=C01,C03
pub proof fn canonicity(a: Tree, b: Tree)
    requires wf(a), wf(b), forall|env: Env| val_at(a, env) == val_at(b, env),
    ensures a == b,
{
    if a != b { let e = distinguish(a, b); assert(val_at(a, e) == val_at(b, e)); }
}
//@lemma name=handles_equal_iff_same_function props=C01
pub proof fn handles_equal_iff_same_function<E: Edge>(x: E, y: E)
    requires edge_ok::<E>(), wf(x.view()), wf(y.view()),
    ensures x.eq_spec(&y) <==> (forall|env: Env| val_at(x.view(), env) == val_at(y.view(), env)),
{
    if forall|env: Env| val_at(x.view(), env) == val_at(y.view(), env) { canonicity(x.view(), y.view()); }
}
//@lemma name=add_vars_preserves_function props=C01,C16
pub proof fn add_vars_preserves_function(t: Tree, n: int, e1: Env, e2: Env)
    requires below(t, n), forall|i: int| i < n ==> #[trigger] e1(i) == e2(i),
    ensures val_at(t, e1) == val_at(t, e2),
    decreases t,
{
    match t {
        Tree::Leaf(_) => {}
        Tree::Inner(l, a, b) => { add_vars_preserves_function(*a, n, e1, e2); add_vars_preserves_function(*b, n, e1, e2); }
    }
}

// ---------- terminal numbers: abstract values + the laws terminal_bin may use ----------
pub trait NumberBase: Sized + Clone {
    spec fn val(&self) -> int;
    spec fn s_zero() -> int;
    spec fn s_one() -> int;
    spec fn s_nan() -> int;
    spec fn s_add(a: int, b: int) -> int;
    spec fn s_sub(a: int, b: int) -> int;
    spec fn s_mul(a: int, b: int) -> int;
    spec fn s_div(a: int, b: int) -> int;
    spec fn s_cmp(a: int, b: int) -> Option<Ordering>;
    fn zero() -> (r: Self) ensures r.val() == Self::s_zero();
    fn one() -> (r: Self) ensures r.val() == Self::s_one();
    fn nan() -> (r: Self) ensures r.val() == Self::s_nan();
    fn is_zero(&self) -> (b: bool) ensures b == (self.val() == Self::s_zero());
    fn is_one(&self) -> (b: bool) ensures b == (self.val() == Self::s_one());
    fn is_nan(&self) -> (b: bool) ensures b == (self.val() == Self::s_nan());
    fn add(&self, rhs: &Self) -> (r: Self) ensures r.val() == Self::s_add(self.val(), rhs.val());
    fn sub(&self, rhs: &Self) -> (r: Self) ensures r.val() == Self::s_sub(self.val(), rhs.val());
    fn mul(&self, rhs: &Self) -> (r: Self) ensures r.val() == Self::s_mul(self.val(), rhs.val());
    fn div(&self, rhs: &Self) -> (r: Self) ensures r.val() == Self::s_div(self.val(), rhs.val());
    fn partial_cmp(&self, other: &Self) -> (r: Option<Ordering>) ensures r == Self::s_cmp(self.val(), other.val());
}
/// The algebraic facts about the terminal arithmetic that are ASSUMED here and checked for I64 and F64 by
/// Kani (kani/mtbdd_terminal: laws_for_shortcuts).  Deliberately absent: `0 - x == x`.
pub open spec fn num_laws<T: NumberBase>() -> bool {
    &&& T::s_zero() != T::s_one() && T::s_zero() != T::s_nan() && T::s_one() != T::s_nan()
    &&& forall|x: int| #[trigger] T::s_add(T::s_zero(), x) == x
    &&& forall|x: int| #[trigger] T::s_add(x, T::s_zero()) == x
    &&& forall|x: int| #[trigger] T::s_sub(x, T::s_zero()) == x
    &&& forall|x: int| #[trigger] T::s_mul(T::s_one(), x) == x
    &&& forall|x: int| #[trigger] T::s_mul(x, T::s_one()) == x
    &&& forall|x: int| #[trigger] T::s_div(x, T::s_one()) == x
    &&& forall|x: int| #[trigger] T::s_add(T::s_nan(), x) == T::s_nan()
    &&& forall|x: int| #[trigger] T::s_add(x, T::s_nan()) == T::s_nan()
    &&& forall|x: int| #[trigger] T::s_sub(T::s_nan(), x) == T::s_nan()
    &&& forall|x: int| #[trigger] T::s_sub(x, T::s_nan()) == T::s_nan()
    &&& forall|x: int| #[trigger] T::s_mul(T::s_nan(), x) == T::s_nan()
    &&& forall|x: int| #[trigger] T::s_mul(x, T::s_nan()) == T::s_nan()
    &&& forall|x: int| #[trigger] T::s_div(T::s_nan(), x) == T::s_nan()
    &&& forall|x: int| #[trigger] T::s_div(x, T::s_nan()) == T::s_nan()
    &&& forall|x: int, y: int| #[trigger] T::s_add(x, y) == T::s_add(y, x)
    &&& forall|x: int, y: int| #[trigger] T::s_mul(x, y) == T::s_mul(y, x)
    // order: reflexive (also on NaN), NaN incomparable with everything else, Equal only for identical values, antisymmetric
    &&& forall|x: int| #[trigger] T::s_cmp(x, x) == Some(Ordering::Equal)
    &&& forall|x: int| x != T::s_nan() ==> #[trigger] T::s_cmp(T::s_nan(), x) is None
    &&& forall|x: int| x != T::s_nan() ==> #[trigger] T::s_cmp(x, T::s_nan()) is None
    &&& forall|x: int, y: int| #[trigger] T::s_cmp(x, y) == Some(Ordering::Equal) ==> x == y
    &&& forall|x: int, y: int| (#[trigger] T::s_cmp(x, y) == Some(Ordering::Less)) == (T::s_cmp(y, x) == Some(Ordering::Greater))
    &&& forall|x: int, y: int| (#[trigger] T::s_cmp(x, y) is None) == (T::s_cmp(y, x) is None)
}
/// min / max as the property states them: the smaller / larger operand, NaN if incomparable
pub open spec fn s_min<T: NumberBase>(a: int, b: int) -> int {
    match T::s_cmp(a, b) { Some(Ordering::Less) => a, Some(Ordering::Equal) => a, Some(Ordering::Greater) => b, None => T::s_nan() }
}
pub open spec fn s_max<T: NumberBase>(a: int, b: int) -> int {
    match T::s_cmp(a, b) { Some(Ordering::Greater) => a, Some(Ordering::Equal) => a, Some(Ordering::Less) => b, None => T::s_nan() }
}
/// the pointwise oracle (operator numbers are those of the real `MTBDDOp as u8`)
pub open spec fn op_val<T: NumberBase>(op: u8, a: int, b: int) -> int {
    if op == MTBDDOp::Add as u8 { T::s_add(a, b) }
    else if op == MTBDDOp::Sub as u8 { T::s_sub(a, b) }
    else if op == MTBDDOp::Mul as u8 { T::s_mul(a, b) }
    else if op == MTBDDOp::Div as u8 { T::s_div(a, b) }
    else if op == MTBDDOp::Min as u8 { s_min::<T>(a, b) }
    else { s_max::<T>(a, b) }
}
// oracles named by the API function (so that a wrapper calling the wrong operator is caught)
pub open spec fn api_add<T: NumberBase>(a: int, b: int) -> int { T::s_add(a, b) }
pub open spec fn api_sub<T: NumberBase>(a: int, b: int) -> int { T::s_sub(a, b) }
pub open spec fn api_mul<T: NumberBase>(a: int, b: int) -> int { T::s_mul(a, b) }
pub open spec fn api_div<T: NumberBase>(a: int, b: int) -> int { T::s_div(a, b) }
pub open spec fn api_min<T: NumberBase>(a: int, b: int) -> int { s_min::<T>(a, b) }
pub open spec fn api_max<T: NumberBase>(a: int, b: int) -> int { s_max::<T>(a, b) }
pub open spec fn is_bin(op: u8) -> bool { MTBDDOp::Add as u8 <= op <= MTBDDOp::Max as u8 }
pub open spec fn commutative(op: u8) -> bool { op == MTBDDOp::Add as u8 || op == MTBDDOp::Mul as u8 || op == MTBDDOp::Min as u8 || op == MTBDDOp::Max as u8 }
pub open spec fn res_top_ok2(r: Tree, a: Tree, b: Tree) -> bool { top(r) >= top(a) || top(r) >= top(b) }
pub open spec fn bin_post<T: NumberBase>(op: u8, f: Tree, g: Tree, n: int, r: Tree) -> bool {
    ok(r, n) && res_top_ok2(r, f, g) && forall|env: Env| #[trigger] val_at(r, env) == op_val::<T>(op, val_at(f, env), val_at(g, env))
}
pub open spec fn ite_post<T: NumberBase>(f: Tree, g: Tree, h: Tree, n: int, r: Tree) -> bool {
    ok(r, n) && (top(r) >= top(f) || top(r) >= top(g) || top(r) >= top(h))
    && forall|env: Env| #[trigger] val_at(r, env) == (if val_at(f, env) == T::s_zero() { val_at(h, env) } else { val_at(g, env) })
}

// ---------- restrict: cofactor w.r.t. a partial assignment (cube of 0-1-valued literals) ----------
/// positive literal <=> the then-child is an inner node or the terminal 1
pub open spec fn is_pos<T: NumberBase>(a: Tree) -> bool { a is Inner || a == Tree::Leaf(T::s_one()) }
pub open spec fn next_cube<T: NumberBase>(a: Tree, b: Tree) -> Tree { if is_pos::<T>(a) { a } else { b } }
pub open spec fn cube_val<T: NumberBase>(c: Tree, env: Env, i: int) -> bool decreases c {
    match c {
        Tree::Leaf(_) => env(i),
        Tree::Inner(l, a, b) => if i == l as int { is_pos::<T>(*a) } else { cube_val::<T>(next_cube::<T>(*a, *b), env, i) },
    }
}
pub open spec fn cenv<T: NumberBase>(c: Tree, env: Env) -> Env { |i: int| cube_val::<T>(c, env, i) }
pub open spec fn restrict_post<T: NumberBase>(f: Tree, vars: Tree, n: int, r: Tree) -> bool {
    ok(r, n) && top(r) >= top(f) && forall|env: Env| #[trigger] val_at(r, env) == val_at(f, cenv::<T>(vars, env))
}
pub broadcast proof fn lemma_cube_val_mk<T: NumberBase>(l: u32, a: Tree, b: Tree, env: Env, i: int)
    ensures #[trigger] cube_val::<T>(mk(l, a, b), env, i) == (if i == l as int { is_pos::<T>(a) } else { cube_val::<T>(next_cube::<T>(a, b), env, i) }),
{}
pub broadcast proof fn lemma_cube_val_above<T: NumberBase>(c: Tree, env: Env, i: int)
    requires wf(c), i < top(c),
    ensures #[trigger] cube_val::<T>(c, env, i) == env(i),
    decreases c,
{
    match c {
        Tree::Leaf(_) => {}
        Tree::Inner(l, a, b) => { lemma_cube_val_above::<T>(next_cube::<T>(*a, *b), env, i); }
    }
}
pub broadcast proof fn lemma_cenv_leaf<T: NumberBase>(t: Tree, b: int, env: Env)
    requires wf(t),
    ensures #[trigger] val_at(t, cenv::<T>(Tree::Leaf(b), env)) == val_at(t, env),
{
    lemma_val_agree(t, cenv::<T>(Tree::Leaf(b), env), env);
}
pub broadcast proof fn lemma_cenv_skip<T: NumberBase>(t: Tree, l: u32, a: Tree, b: Tree, env: Env)
    requires wf(t), (l as int) < top(t),
    ensures #[trigger] val_at(t, cenv::<T>(mk(l, a, b), env)) == val_at(t, cenv::<T>(next_cube::<T>(a, b), env)),
{
    lemma_val_agree(t, cenv::<T>(mk(l, a, b), env), cenv::<T>(next_cube::<T>(a, b), env));
}
pub broadcast proof fn lemma_cenv_same<T: NumberBase>(l: u32, ft: Tree, fe: Tree, l2: u32, a: Tree, b: Tree, env: Env)
    requires wf(mk(l, ft, fe)), l == l2,
    ensures #[trigger] val_at(mk(l, ft, fe), cenv::<T>(mk(l2, a, b), env)) == val_at(if is_pos::<T>(a) { ft } else { fe }, cenv::<T>(next_cube::<T>(a, b), env)),
{
    lemma_val_agree(ft, cenv::<T>(mk(l, a, b), env), cenv::<T>(next_cube::<T>(a, b), env));
    lemma_val_agree(fe, cenv::<T>(mk(l, a, b), env), cenv::<T>(next_cube::<T>(a, b), env));
}
pub broadcast group restrict_lemmas { lemma_cube_val_mk, lemma_cube_val_above, lemma_cenv_leaf, lemma_cenv_skip, lemma_cenv_same }

// ---------- environment stubs (ASSUMED manager contract) ----------
pub type LevelNo = u32;
pub type VarNo = u32;
#[derive(Debug)]
pub struct OutOfMemory;
pub type AllocResult<T> = Result<T, OutOfMemory>;
pub type Borrowed<'a, E> = &'a E;

pub trait Edge: Sized + Ord {
    type Tag: Copy + Default;
    spec fn view(&self) -> Tree;
    fn borrowed(&self) -> (r: Borrowed<'_, Self>) ensures r.view() == self.view();
    /// MTBDD edges carry no semantic tag
    fn with_tag_owned(self, tag: Self::Tag) -> (r: Self) ensures r.view() == self.view();
}
pub trait LevelSpec { spec fn level_spec(&self) -> u32; }
pub trait InnerNode<E: Edge>: Sized + LevelSpec {
    spec fn then_spec(&self) -> Tree;
    spec fn else_spec(&self) -> Tree;
    fn new(level: LevelNo, children: [E; 2]) -> (r: Self)
        ensures r.level_spec() == level, r.then_spec() == children[0].view(), r.else_spec() == children[1].view();
    fn child(&self, n: usize) -> (r: Borrowed<'_, E>)
        requires n < 2
        ensures r.view() == (if n == 0 { self.then_spec() } else { self.else_spec() });
}
pub trait HasLevel: LevelSpec {
    fn level(&self) -> (l: LevelNo) ensures l == self.level_spec();
}
pub assume_specification<T: ?Sized> [<T as std::borrow::Borrow<T>>::borrow] (x: &T) -> (r: &T)
    ensures r == x;
pub assume_specification<T: Ord> [std::cmp::min] (a: T, b: T) -> (r: T)
    ensures T::obeys_cmp_spec() ==> r == (if b.cmp_spec(&a) == core::cmp::Ordering::Less { b } else { a });
/// hash-consing: handles are equal iff they denote the same stored diagram
pub open spec fn edge_ok<E: Edge>() -> bool {
    &&& E::obeys_eq_spec()
    &&& E::obeys_partial_cmp_spec()
    &&& forall|a: E, b: E| (#[trigger] a.eq_spec(&b)) <==> (a.view() == b.view())
}
pub enum Node<'a, M: Manager + 'a> {
    Inner(&'a M::InnerNode),
    Terminal(&'a M::Terminal),
}
impl<'a, M: Manager> Clone for Node<'a, M> { fn clone(&self) -> (r: Self) ensures r == *self { *self } }
impl<'a, M: Manager> Copy for Node<'a, M> {}
impl<'a, M: Manager> Node<'a, M> {
    pub fn unwrap_inner(self) -> (r: &'a M::InnerNode)
        requires self is Inner
        ensures self == Node::<'a, M>::Inner(r)
    { match self { Node::Inner(node) => node, Node::Terminal(_) => vstd::pervasive::unreached() } }
}
impl<'a, M: Manager> Node<'a, M> where M::InnerNode: HasLevel {
    pub fn level(self) -> (r: LevelNo)
        ensures r == (match self { Node::Inner(node) => node.level_spec(), Node::Terminal(_) => u32::MAX })
    { match self { Node::Inner(node) => node.level(), Node::Terminal(_) => LevelNo::MAX } }
}
pub trait LevelView<E: Edge, N: InnerNode<E>> {
    spec fn level_no_spec(&self) -> u32;
    fn get_or_insert(&mut self, node: N) -> (r: AllocResult<E>)
        requires node.level_spec() == old(self).level_no_spec(),
        ensures r is Ok ==> r->Ok_0.view() == mk(node.level_spec(), node.then_spec(), node.else_spec());
}
pub trait Manager: Sized {
    type Edge: Edge;
    type InnerNode: InnerNode<Self::Edge>;
    type Terminal: NumberBase;
    type LevelView<'a>: LevelView<Self::Edge, Self::InnerNode> where Self: 'a;
    spec fn num_levels_spec(&self) -> int;
    spec fn var_to_level_spec(&self, v: int) -> int;
    fn get_node<'a>(&'a self, e: &'a Self::Edge) -> (n: Node<'a, Self>)
        ensures match n {
            Node::Inner(node) => e.view() == mk(node.level_spec(), node.then_spec(), node.else_spec()),
            Node::Terminal(t) => e.view() == Tree::Leaf(t.val()),
        };
    fn clone_edge(&self, e: &Self::Edge) -> (r: Self::Edge) ensures r.view() == e.view();
    fn drop_edge(&self, e: Self::Edge);
    /// terminals are allocated dynamically: may fail
    fn get_terminal(&self, t: Self::Terminal) -> (r: AllocResult<Self::Edge>)
        ensures r is Ok ==> r->Ok_0.view() == Tree::Leaf(t.val());
    fn num_levels(&self) -> (n: LevelNo) ensures n as int == self.num_levels_spec();
    fn level(&self, no: LevelNo) -> (r: Self::LevelView<'_>)
        requires (no as int) < self.num_levels_spec()
        ensures r.level_no_spec() == no;
    fn var_to_level(&self, var: VarNo) -> (l: LevelNo)
        requires (var as int) < self.num_levels_spec()
        ensures l as int == self.var_to_level_spec(var as int), (l as int) < self.num_levels_spec() <= u32::MAX as int;
    spec fn level_to_var_spec(&self, l: int) -> int;
    fn level_to_var(&self, level: LevelNo) -> (v: VarNo)
        requires (level as int) < self.num_levels_spec()
        ensures v as int == self.level_to_var_spec(level as int), (v as int) < self.num_levels_spec();
}
pub mod oxidd_core {
    pub use super::LevelView;
    pub use super::VarNo;
    pub use super::Node;
}
/// `Function::as_edge(manager)` / `Function::from_edge(manager, e)`: a function handle is modelled by its root edge
pub trait AsEdgeExt: Sized { fn as_edge<M>(&self, manager: &M) -> (r: &Self) ensures r == self { self } }
impl<E: Edge> AsEdgeExt for E {}
pub fn from_edge<M: Manager>(manager: &M, e: M::Edge) -> (r: M::Edge) ensures r.view() == e.view() { e }
pub struct EdgeDropGuard<'a, M: Manager> { pub manager: &'a M, pub edge: M::Edge }
impl<'a, M: Manager> EdgeDropGuard<'a, M> {
    pub fn new(manager: &'a M, edge: M::Edge) -> (r: Self) ensures r.edge.view() == edge.view() { EdgeDropGuard { manager, edge } }
    pub fn into_edge(self) -> (r: M::Edge) ensures r.view() == self.edge.view() { self.edge }
    pub fn borrowed(&self) -> (r: Borrowed<'_, M::Edge>) ensures r.view() == self.edge.view() { &self.edge }
}
pub trait CacheOp<T: NumberBase>: Copy { spec fn inv(self, operands: Seq<Tree>, n: int, res: Tree) -> bool; }
pub open spec fn views<E: Edge>(s: Seq<&E>) -> Seq<Tree> { s.map_values(|e: &E| e.view()) }
pub trait ApplyCache<M: Manager, O: CacheOp<M::Terminal>> {
    fn get(&self, manager: &M, operator: O, operands: &[Borrowed<M::Edge>]) -> (r: Option<M::Edge>)
        ensures match r { Some(h) => operator.inv(views(operands@), manager.num_levels_spec(), h.view()), None => true };
    fn add(&self, manager: &M, operator: O, operands: &[Borrowed<M::Edge>], value: Borrowed<M::Edge>)
        requires operator.inv(views(operands@), manager.num_levels_spec(), value.view());
}
pub trait HasApplyCache<M: Manager, O: CacheOp<M::Terminal>> {
    type ApplyCache: ApplyCache<M, O>;
    fn apply_cache(&self) -> &Self::ApplyCache;
}
/// stub of fixedbitset::FixedBitSet (only `contains` is used by verified code)
pub struct FixedBitSet { pub bits: Vec<bool> }
impl FixedBitSet {
    pub open spec fn spec_contains(&self, i: int) -> bool { 0 <= i < self.bits@.len() && self.bits@[i] }
    pub fn contains(&self, bit: usize) -> (r: bool) ensures r == self.spec_contains(bit as int)
    { if bit < self.bits.len() { self.bits[bit] } else { false } }
    /// ASSUMED (fixedbitset docs): a new set of `bits` bits, all clear
    #[verifier::external_body]
    pub fn with_capacity(bits: usize) -> (r: Self)
        ensures r.bits@.len() == bits, forall|i: int| !(#[trigger] r.spec_contains(i))
    { unimplemented!() }
    /// ASSUMED (fixedbitset docs): sets bit `bit` to `enabled`; panics if `bit` is out of bounds
    #[verifier::external_body]
    pub fn set(&mut self, bit: usize, enabled: bool)
        requires bit < old(self).bits@.len(),
        ensures final(self).bits@ == old(self).bits@.update(bit as int, enabled),
            forall|l: int| #[trigger] final(self).spec_contains(l) == (if l == bit as int { enabled } else { old(self).spec_contains(l) }),
    { unimplemented!() }
}
/// stub of the `impl IntoIterator<Item = (VarNo, bool)>` argument of `eval_edge` (rule R10): `all()` is the sequence it
/// yields, `done()` the prefix yielded so far (ASSUMED: std Iterator protocol)
pub struct ArgIter { pub all: Ghost<Seq<(u32, bool)>>, pub done: Ghost<Seq<(u32, bool)>> }
impl ArgIter {
    pub open spec fn all(&self) -> Seq<(u32, bool)> { self.all@ }
    pub open spec fn done(&self) -> Seq<(u32, bool)> { self.done@ }
    #[verifier::external_body]
    pub fn next(&mut self) -> (r: Option<(VarNo, bool)>)
        ensures final(self).all() == old(self).all(),
            r is None ==> old(self).done() == old(self).all() && final(self).done() == old(self).done(),
            r is Some ==> old(self).done().len() < old(self).all().len() && r->Some_0 == old(self).all()[old(self).done().len() as int]
                && final(self).done() == old(self).done().push(r->Some_0),
    { unimplemented!() }
}

// ---------- items copied from the real crates ----------
//@item file=crates/oxidd-rules-mtbdd/src/lib.rs path=enum:MTBDDOp attrs="#[derive(Clone, Copy, PartialEq, Eq, Structural)] #[repr(u8)]" vis=pub
//@end
//@item file=crates/oxidd-rules-mtbdd/src/lib.rs path=enum:Operation vis=pub
//@end
//@item file=crates/oxidd-core/src/lib.rs path=enum:ReducedOrNew vis=pub
//@end
impl<T: NumberBase> CacheOp<T> for MTBDDOp {
    open spec fn inv(self, operands: Seq<Tree>, n: int, res: Tree) -> bool {
        let o = self as u8;
        if is_bin(o) { operands.len() == 2 && bin_post::<T>(o, operands[0], operands[1], n, res) }
        else if o == MTBDDOp::Ite as u8 { operands.len() == 3 && ite_post::<T>(operands[0], operands[1], operands[2], n, res) }
        else if o == MTBDDOp::Restrict as u8 { operands.len() == 2 && restrict_post::<T>(operands[0], operands[1], n, res) }
        else { false }
    }
}
/// R10 helper for `DiagramRules::reduce`: the `impl IntoIterator<Item = E>` argument, always called with `[t, e]`
pub struct Children2<E> { pub a: Option<E>, pub b: Option<E> }
impl<E: Edge> Children2<E> {
    pub fn into_iter(self) -> (r: Self) ensures r == self { self }
    pub fn next(&mut self) -> (r: Option<E>)
        ensures r == old(self).a, final(self).a == old(self).b, final(self).b == None::<E>,
    { let r = self.a.take(); self.a = self.b.take(); r }
}

// ---------- eval (C10): the assignment denoted by the `(variable, value)` pairs, last value wins ----------
pub open spec fn all_false() -> Env { |l: int| false }
pub open spec fn all_true() -> Env { |l: int| true }
/// `base` overridden by the pairs in order; `m` maps variable numbers to levels
pub open spec fn aenv(args: Seq<(u32, bool)>, m: spec_fn(int) -> int, base: Env) -> Env decreases args.len() {
    if args.len() == 0 { base } else { upd(aenv(args.drop_last(), m, base), m(args.last().0 as int), args.last().1) }
}
/// the pairs give a value to every level below `n`
pub open spec fn total(args: Seq<(u32, bool)>, m: spec_fn(int) -> int, n: int) -> bool {
    forall|l: int| 0 <= l < n ==> #[trigger] assigned(args, m, l)
}
pub open spec fn assigned(args: Seq<(u32, bool)>, m: spec_fn(int) -> int, l: int) -> bool {
    exists|i: int| 0 <= i < args.len() && m((#[trigger] args[i]).0 as int) == l
}
/// C02 "eval agrees with the node-by-node interpretation": under a total assignment the result is the value of the
/// diagram under that assignment (documented default for unassigned variables: false; irrelevant when total)
pub open spec fn eval_post(t: Tree, args: Seq<(u32, bool)>, m: spec_fn(int) -> int, n: int, r: int) -> bool {
    total(args, m, n) ==> r == val_at(t, aenv(args, m, all_false()))
}
pub broadcast proof fn lemma_aenv_push(s: Seq<(u32, bool)>, x: (u32, bool), m: spec_fn(int) -> int, base: Env)
    ensures #[trigger] aenv(s.push(x), m, base) == upd(aenv(s, m, base), m(x.0 as int), x.1),
{
    assert(s.push(x).drop_last() =~= s);
    assert(s.push(x).last() == x);
}
pub broadcast proof fn lemma_aenv_empty(m: spec_fn(int) -> int, base: Env)
    ensures #[trigger] aenv(Seq::<(u32, bool)>::empty(), m, base) == base,
{}
pub proof fn lemma_aenv_base_irrelevant(args: Seq<(u32, bool)>, m: spec_fn(int) -> int, b1: Env, b2: Env, l: int, i: int)
    requires 0 <= i < args.len(), m(args[i].0 as int) == l,
    ensures aenv(args, m, b1)(l) == aenv(args, m, b2)(l),
    decreases args.len(),
{
    if i < args.len() - 1 && m(args.last().0 as int) != l {
        assert(args.drop_last()[i] == args[i]);
        lemma_aenv_base_irrelevant(args.drop_last(), m, b1, b2, l, i);
    }
}
pub open spec fn agree_below(e1: Env, e2: Env, n: int) -> bool { forall|i: int| 0 <= i < n ==> #[trigger] e1(i) == e2(i) }
pub proof fn lemma_sem_agree_below(t: Tree, e1: Env, e2: Env, n: int)
    requires below(t, n), agree_below(e1, e2, n),
    ensures val_at(t, e1) == val_at(t, e2),
    decreases t,
{
    match t {
        Tree::Leaf(_) => {}
        Tree::Inner(l, a, b) => { lemma_sem_agree_below(*a, e1, e2, n); lemma_sem_agree_below(*b, e1, e2, n); }
    }
}
/// what the loop of `eval_edge` establishes (`ch` = the level -> decision map read off the bit set) implies eval_post
pub broadcast proof fn lemma_eval_post(t: Tree, args: Seq<(u32, bool)>, m: spec_fn(int) -> int, n: int, ch: Env, r: int)
    requires below(t, n), forall|l: int| #[trigger] ch(l) == aenv(args, m, all_true())(l), r == val_at(t, ch),
    ensures #[trigger] eval_post(t, args, m, n, r), #[trigger] val_at(t, ch) == r,
{
    if total(args, m, n) {
        let e = aenv(args, m, all_false());
        assert(agree_below(ch, e, n)) by {
            assert forall|l: int| 0 <= l < n implies #[trigger] ch(l) == e(l) by {
                assert(assigned(args, m, l));
                let i = choose|i: int| 0 <= i < args.len() && m((#[trigger] args[i]).0 as int) == l;
                lemma_aenv_base_irrelevant(args, m, all_true(), all_false(), l, i);
            }
        }
        lemma_sem_agree_below(t, ch, e, n);
    }
}
pub broadcast group eval_lemmas { lemma_aenv_push, lemma_aenv_empty, lemma_eval_post }
/// variable number -> level map of a manager as a spec function
pub open spec fn vl<M: Manager>(m: &M) -> spec_fn(int) -> int { |v: int| m.var_to_level_spec(v) }
// ---------- uniform cube picking (C13 "selects models without bias"): float / RNG stubs ----------
/// stub of `f64` as used by `pick_cube_uniform_edge` (ASSUMED: F64 counts are exact, division is an uninterpreted function
/// `fdiv` on reals; rounding, NaN and infinities are not modelled)
#[derive(Clone, Copy)]
pub struct Fl { pub v: Ghost<real> }
impl Fl { pub open spec fn rv(self) -> real { self.v@ } }
pub uninterp spec fn fdiv(a: real, b: real) -> real;
impl std::ops::Add for Fl { type Output = Fl; #[verifier::external_body] fn add(self, rhs: Fl) -> (r: Fl) { unimplemented!() } }
impl vstd::std_specs::ops::AddSpecImpl for Fl {
    open spec fn obeys_add_spec() -> bool { true }
    open spec fn add_req(self, rhs: Fl) -> bool { true }
    open spec fn add_spec(self, rhs: Fl) -> Fl { Fl { v: Ghost(self.rv() + rhs.rv()) } }
}
impl std::ops::Div for Fl { type Output = Fl; #[verifier::external_body] fn div(self, rhs: Fl) -> (r: Fl) { unimplemented!() } }
impl vstd::std_specs::ops::DivSpecImpl for Fl {
    open spec fn obeys_div_spec() -> bool { true }
    open spec fn div_req(self, rhs: Fl) -> bool { true }
    open spec fn div_spec(self, rhs: Fl) -> Fl { Fl { v: Ghost(fdiv(self.rv(), rhs.rv())) } }
}
impl PartialEq for Fl { #[verifier::external_body] fn eq(&self, o: &Fl) -> (b: bool) { unimplemented!() } }
impl PartialOrd for Fl { #[verifier::external_body] fn partial_cmp(&self, o: &Fl) -> (r: Option<core::cmp::Ordering>) { unimplemented!() } }
impl vstd::std_specs::cmp::PartialEqSpecImpl for Fl {
    open spec fn obeys_eq_spec() -> bool { true }
    open spec fn eq_spec(&self, o: &Fl) -> bool { self.rv() == o.rv() }
}
impl vstd::std_specs::cmp::PartialOrdSpecImpl for Fl {
    open spec fn obeys_partial_cmp_spec() -> bool { true }
    open spec fn partial_cmp_spec(&self, o: &Fl) -> Option<core::cmp::Ordering> {
        if self.rv() < o.rv() { Some(core::cmp::Ordering::Less) } else if self.rv() == o.rv() { Some(core::cmp::Ordering::Equal) } else { Some(core::cmp::Ordering::Greater) }
    }
}
/// stub of `oxidd_core::util::num::F64` (newtype around f64)
pub struct F64(pub Fl);
/// stub of `oxidd_core::util::Rng`: `draw()` is the next uniform sample in [0, 1)
pub struct Rng { pub next: Ghost<real> }
impl Rng {
    pub open spec fn draw(&self) -> real { self.next@ }
    #[verifier::external_body]
    pub fn generate_f64(&mut self) -> (r: Fl) ensures r.rv() == old(self).draw(), 0real <= r.rv() < 1real { unimplemented!() }
}
mod rules {
use super::*;
broadcast use {leaf_lemmas, restrict_lemmas};
pub struct MTBDDRules;
impl MTBDDRules {
// the reduction rule itself (C01/C03): DiagramRules::reduce of MTBDDRules
//@fn file=crates/oxidd-rules-mtbdd/src/lib.rs path=impl:DiagramRules<E,~N,~T>~for~MTBDDRules/fn:reduce props=C01,C03,C10 vis=pub
//@header
fn reduce<E: Edge, N: InnerNode<E>, M: Manager<Edge = E, InnerNode = N>>(manager: &M, level: LevelNo, children: Children2<E>) -> (res: ReducedOrNew<E, N>)
//@spec
    requires edge_ok::<E>(), children.a is Some, children.b is Some,
    ensures match res {
        ReducedOrNew::Reduced(e) => children.a->Some_0.view() == children.b->Some_0.view() && e.view() == children.a->Some_0.view(),
        ReducedOrNew::New(node, _) => children.a->Some_0.view() != children.b->Some_0.view() && node.level_spec() == level
            && node.then_spec() == children.a->Some_0.view() && node.else_spec() == children.b->Some_0.view(),
    },
//@end
}
impl<E: Edge, N: InnerNode<E>> ReducedOrNew<E, N> {
//@fn file=crates/oxidd-core/src/lib.rs path=impl:ReducedOrNew<E,~N>/fn:then_insert props=C01,C03,C10 vis=pub
//@spec
    requires (level as int) < manager.num_levels_spec(), self matches ReducedOrNew::New(node, _) ==> node.level_spec() == level,
    ensures res is Ok ==> res->Ok_0.view() == (match self { ReducedOrNew::Reduced(e) => e.view(), ReducedOrNew::New(node, _) => mk(node.level_spec(), node.then_spec(), node.else_spec()) }),
//@end
}
/// what callers of `<MTBDDRules as DiagramRules<_,_,_>>::reduce(manager, level, [t, e])` see (proved above on the real body)
#[verifier::external_body]
pub fn rules_reduce<E: Edge, N: InnerNode<E>, M: Manager<Edge = E, InnerNode = N>>(manager: &M, level: LevelNo, children: [E; 2]) -> (res: ReducedOrNew<E, N>)
    requires edge_ok::<E>(),
    ensures match res {
        ReducedOrNew::Reduced(e) => children[0].view() == children[1].view() && e.view() == children[0].view(),
        ReducedOrNew::New(node, _) => children[0].view() != children[1].view() && node.level_spec() == level
            && node.then_spec() == children[0].view() && node.else_spec() == children[1].view(),
    },
{ unimplemented!() }

//@fn file=crates/oxidd-rules-mtbdd/src/lib.rs path=fn:reduce#1 props=C01,C03,C10 subst_text=<MTBDDRules~as~DiagramRules<_,~_,~_>>::reduce::=rules_reduce vis=pub
//@spec
    requires edge_ok::<M::Edge>(), (level as int) < manager.num_levels_spec(),
        ok(t.view(), manager.num_levels_spec()), ok(e.view(), manager.num_levels_spec()),
        (level as int) < top(t.view()), (level as int) < top(e.view()),
    ensures res is Ok ==> ok(res->Ok_0.view(), manager.num_levels_spec()) && top(res->Ok_0.view()) >= level
        && res->Ok_0.view() == (if t.view() == e.view() { t.view() } else { mk(level, t.view(), e.view()) })
        && forall|env: Env| #[trigger] val_at(res->Ok_0.view(), env) == (if env(level as int) { val_at(t.view(), env) } else { val_at(e.view(), env) }),
//@end
//@fn file=crates/oxidd-rules-mtbdd/src/lib.rs path=fn:collect_children mode=stub ret=r vis=pub
//@spec
    ensures r.0.view() == node.then_spec(), r.1.view() == node.else_spec(),
//@end
//@fn file=crates/oxidd-rules-mtbdd/src/lib.rs path=fn:terminal_bin props=C10,C06 vis=pub cases=OP:MTBDDOp::Add~as~u8,MTBDDOp::Sub~as~u8,MTBDDOp::Mul~as~u8,MTBDDOp::Div~as~u8,MTBDDOp::Min~as~u8,MTBDDOp::Max~as~u8
//@spec
    requires is_bin(OP), num_laws::<T>(), edge_ok::<M::Edge>(), ok(f.view(), m.num_levels_spec()), ok(g.view(), m.num_levels_spec()),
    ensures res is Ok ==> match res->Ok_0 {
        Operation::Done(h) => bin_post::<T>(OP, f.view(), g.view(), m.num_levels_spec(), h.view()),
        Operation::Binary(o, a, b) => o as u8 == OP && (f.view() is Inner || g.view() is Inner)
            && ((a.view() == f.view() && b.view() == g.view()) || (a.view() == g.view() && b.view() == f.view() && commutative(OP))),
    },
//@end

pub mod apply_rec {
use super::*;
broadcast use {leaf_lemmas, restrict_lemmas};
//@fn file=crates/oxidd-rules-mtbdd/src/apply_rec.rs path=fn:apply_bin nodecr props=C10,C06 vis=pub
//@spec
    requires is_bin(OP), num_laws::<T>(), edge_ok::<M::Edge>(), ok(f.view(), manager.num_levels_spec()), ok(g.view(), manager.num_levels_spec()),
    ensures res is Ok ==> bin_post::<T>(OP, f.view(), g.view(), manager.num_levels_spec(), res->Ok_0.view()),
//@end
//@fn file=crates/oxidd-rules-mtbdd/src/apply_rec.rs path=fn:apply_ite nodecr ordmin props=C10,C06 vis=pub
//@spec
    requires num_laws::<T>(), edge_ok::<M::Edge>(), ok(f.view(), manager.num_levels_spec()), ok(g.view(), manager.num_levels_spec()), ok(h.view(), manager.num_levels_spec()),
    ensures res is Ok ==> ite_post::<T>(f.view(), g.view(), h.view(), manager.num_levels_spec(), res->Ok_0.view()),
//@end
//@item file=crates/oxidd-rules-mtbdd/src/apply_rec.rs path=fn:restrict/enum:InnerResult rename=restrict__InnerResult
//@end
//@fn file=crates/oxidd-rules-mtbdd/src/apply_rec.rs path=fn:restrict/fn:inner rename=restrict__inner subst=InnerResult>restrict__InnerResult props=C10
//@header
fn restrict__inner<'a, M, T>(manager: &'a M, f: Borrowed<'a, M::Edge>, fnode: &'a M::InnerNode, flevel: LevelNo, vars: Borrowed<'a, M::Edge>, vnode: &'a M::InnerNode) -> (res: restrict__InnerResult<'a, M>)
where M: Manager<Terminal = T>, M::InnerNode: HasLevel, T: NumberBase + 'a,
//@spec
    requires num_laws::<T>(), edge_ok::<M::Edge>(), ok(f.view(), manager.num_levels_spec()), ok(vars.view(), manager.num_levels_spec()),
        f.view() == mk(fnode.level_spec(), fnode.then_spec(), fnode.else_spec()), flevel == fnode.level_spec(),
        vars.view() == mk(vnode.level_spec(), vnode.then_spec(), vnode.else_spec()),
    ensures match res {
        restrict__InnerResult::Done(r) => restrict_post::<T>(f.view(), vars.view(), manager.num_levels_spec(), r.view()),
        restrict__InnerResult::Rec { vars: v2, f: f2, fnode: fn2 } =>
            f2.view() == mk(fn2.level_spec(), fn2.then_spec(), fn2.else_spec())
            && ok(f2.view(), manager.num_levels_spec()) && ok(v2.view(), manager.num_levels_spec())
            && v2.view() is Inner && top(v2.view()) > top(f2.view()) && top(f2.view()) >= top(f.view())
            && forall|env: Env| val_at(f2.view(), cenv::<T>(v2.view(), env)) == #[trigger] val_at(f.view(), cenv::<T>(vars.view(), env)),
    },
    decreases f.view(), vars.view(),
//@end
//@fn file=crates/oxidd-rules-mtbdd/src/apply_rec.rs path=fn:restrict hoist=inner>restrict__inner,InnerResult>restrict__InnerResult nodecr props=C10,C06 vis=pub
//@spec
    requires num_laws::<T>(), edge_ok::<M::Edge>(), ok(f.view(), manager.num_levels_spec()), ok(vars.view(), manager.num_levels_spec()),
    ensures res is Ok ==> restrict_post::<T>(f.view(), vars.view(), manager.num_levels_spec(), res->Ok_0.view()),
//@end
//@fn file=crates/oxidd-rules-mtbdd/src/apply_rec.rs path=impl:PseudoBooleanFunction~for~MTBDDFunction<F>/fn:constant_edge props=C10
//@header
fn constant_edge<M, T>(manager: &M, value: T) -> (res: AllocResult<M::Edge>)
where M: Manager<Terminal = T>, T: NumberBase,
//@spec
    ensures res is Ok ==> res->Ok_0.view() == Tree::Leaf(value.val()),
//@end
//@fn file=crates/oxidd-rules-mtbdd/src/apply_rec.rs path=impl:PseudoBooleanFunction~for~MTBDDFunction<F>/fn:var_edge props=C10
//@header
fn var_edge<M, T>(manager: &M, var: VarNo) -> (res: AllocResult<M::Edge>)
where M: Manager<Terminal = T>, T: NumberBase,
//@spec
    requires num_laws::<T>(), (var as int) < manager.num_levels_spec(),
    ensures res is Ok ==> ok(res->Ok_0.view(), manager.num_levels_spec())
        && forall|env: Env| #[trigger] val_at(res->Ok_0.view(), env) == (if env(manager.var_to_level_spec(var as int)) { T::s_one() } else { T::s_zero() }),
//@end
//@fn file=crates/oxidd-rules-mtbdd/src/apply_rec.rs path=impl:PseudoBooleanFunction~for~MTBDDFunction<F>/fn:add_edge props=C10
//@header
fn add_edge<M, T>(manager: &M, lhs: &M::Edge, rhs: &M::Edge) -> (res: AllocResult<M::Edge>)
where M: Manager<Terminal = T> + HasApplyCache<M, MTBDDOp>, M::InnerNode: HasLevel, T: NumberBase,
//@spec
    requires num_laws::<T>(), edge_ok::<M::Edge>(), ok(lhs.view(), manager.num_levels_spec()), ok(rhs.view(), manager.num_levels_spec()),
    ensures res is Ok ==> ok(res->Ok_0.view(), manager.num_levels_spec())
        && forall|env: Env| #[trigger] val_at(res->Ok_0.view(), env) == api_add::<T>(val_at(lhs.view(), env), val_at(rhs.view(), env)),
//@end
//@fn file=crates/oxidd-rules-mtbdd/src/apply_rec.rs path=impl:PseudoBooleanFunction~for~MTBDDFunction<F>/fn:sub_edge props=C10
//@header
fn sub_edge<M, T>(manager: &M, lhs: &M::Edge, rhs: &M::Edge) -> (res: AllocResult<M::Edge>)
where M: Manager<Terminal = T> + HasApplyCache<M, MTBDDOp>, M::InnerNode: HasLevel, T: NumberBase,
//@spec
    requires num_laws::<T>(), edge_ok::<M::Edge>(), ok(lhs.view(), manager.num_levels_spec()), ok(rhs.view(), manager.num_levels_spec()),
    ensures res is Ok ==> ok(res->Ok_0.view(), manager.num_levels_spec())
        && forall|env: Env| #[trigger] val_at(res->Ok_0.view(), env) == api_sub::<T>(val_at(lhs.view(), env), val_at(rhs.view(), env)),
//@end
//@fn file=crates/oxidd-rules-mtbdd/src/apply_rec.rs path=impl:PseudoBooleanFunction~for~MTBDDFunction<F>/fn:mul_edge props=C10
//@header
fn mul_edge<M, T>(manager: &M, lhs: &M::Edge, rhs: &M::Edge) -> (res: AllocResult<M::Edge>)
where M: Manager<Terminal = T> + HasApplyCache<M, MTBDDOp>, M::InnerNode: HasLevel, T: NumberBase,
//@spec
    requires num_laws::<T>(), edge_ok::<M::Edge>(), ok(lhs.view(), manager.num_levels_spec()), ok(rhs.view(), manager.num_levels_spec()),
    ensures res is Ok ==> ok(res->Ok_0.view(), manager.num_levels_spec())
        && forall|env: Env| #[trigger] val_at(res->Ok_0.view(), env) == api_mul::<T>(val_at(lhs.view(), env), val_at(rhs.view(), env)),
//@end
//@fn file=crates/oxidd-rules-mtbdd/src/apply_rec.rs path=impl:PseudoBooleanFunction~for~MTBDDFunction<F>/fn:div_edge props=C10
//@header
fn div_edge<M, T>(manager: &M, lhs: &M::Edge, rhs: &M::Edge) -> (res: AllocResult<M::Edge>)
where M: Manager<Terminal = T> + HasApplyCache<M, MTBDDOp>, M::InnerNode: HasLevel, T: NumberBase,
//@spec
    requires num_laws::<T>(), edge_ok::<M::Edge>(), ok(lhs.view(), manager.num_levels_spec()), ok(rhs.view(), manager.num_levels_spec()),
    ensures res is Ok ==> ok(res->Ok_0.view(), manager.num_levels_spec())
        && forall|env: Env| #[trigger] val_at(res->Ok_0.view(), env) == api_div::<T>(val_at(lhs.view(), env), val_at(rhs.view(), env)),
//@end
//@fn file=crates/oxidd-rules-mtbdd/src/apply_rec.rs path=impl:PseudoBooleanFunction~for~MTBDDFunction<F>/fn:min_edge props=C10
//@header
fn min_edge<M, T>(manager: &M, lhs: &M::Edge, rhs: &M::Edge) -> (res: AllocResult<M::Edge>)
where M: Manager<Terminal = T> + HasApplyCache<M, MTBDDOp>, M::InnerNode: HasLevel, T: NumberBase,
//@spec
    requires num_laws::<T>(), edge_ok::<M::Edge>(), ok(lhs.view(), manager.num_levels_spec()), ok(rhs.view(), manager.num_levels_spec()),
    ensures res is Ok ==> ok(res->Ok_0.view(), manager.num_levels_spec())
        && forall|env: Env| #[trigger] val_at(res->Ok_0.view(), env) == api_min::<T>(val_at(lhs.view(), env), val_at(rhs.view(), env)),
//@end
//@fn file=crates/oxidd-rules-mtbdd/src/apply_rec.rs path=impl:PseudoBooleanFunction~for~MTBDDFunction<F>/fn:max_edge props=C10
//@header
fn max_edge<M, T>(manager: &M, lhs: &M::Edge, rhs: &M::Edge) -> (res: AllocResult<M::Edge>)
where M: Manager<Terminal = T> + HasApplyCache<M, MTBDDOp>, M::InnerNode: HasLevel, T: NumberBase,
//@spec
    requires num_laws::<T>(), edge_ok::<M::Edge>(), ok(lhs.view(), manager.num_levels_spec()), ok(rhs.view(), manager.num_levels_spec()),
    ensures res is Ok ==> ok(res->Ok_0.view(), manager.num_levels_spec())
        && forall|env: Env| #[trigger] val_at(res->Ok_0.view(), env) == api_max::<T>(val_at(lhs.view(), env), val_at(rhs.view(), env)),
//@end
//@fn file=crates/oxidd-rules-mtbdd/src/apply_rec.rs path=impl:PseudoBooleanFunction~for~MTBDDFunction<F>/fn:restrict_edge props=C10
//@header
fn restrict_edge<M, T>(manager: &M, root: &M::Edge, vars: &M::Edge) -> (res: AllocResult<M::Edge>)
where M: Manager<Terminal = T> + HasApplyCache<M, MTBDDOp>, M::InnerNode: HasLevel, T: NumberBase,
//@spec
    requires num_laws::<T>(), edge_ok::<M::Edge>(), ok(root.view(), manager.num_levels_spec()), ok(vars.view(), manager.num_levels_spec()),
    ensures res is Ok ==> restrict_post::<T>(root.view(), vars.view(), manager.num_levels_spec(), res->Ok_0.view()),
//@end
//@fn file=crates/oxidd-rules-mtbdd/src/apply_rec.rs path=impl:PseudoBooleanFunction~for~MTBDDFunction<F>/fn:ite_edge props=C10
//@header
fn ite_edge<M, T>(manager: &M, if_edge: &M::Edge, then_edge: &M::Edge, else_edge: &M::Edge) -> (res: AllocResult<M::Edge>)
where M: Manager<Terminal = T> + HasApplyCache<M, MTBDDOp>, M::InnerNode: HasLevel, T: NumberBase,
//@spec
    requires num_laws::<T>(), edge_ok::<M::Edge>(), ok(if_edge.view(), manager.num_levels_spec()), ok(then_edge.view(), manager.num_levels_spec()), ok(else_edge.view(), manager.num_levels_spec()),
    ensures res is Ok ==> ite_post::<T>(if_edge.view(), then_edge.view(), else_edge.view(), manager.num_levels_spec(), res->Ok_0.view()),
//@end
// ---------- default methods of PseudoBooleanFunction in oxidd-core/src/function.rs (user-facing API; rule R15) ----------
//@fn file=crates/oxidd-core/src/function.rs path=trait:PseudoBooleanFunction/fn:add rename=api_add_fn selfcall=Self::> withmgr=this props=C10
//@header
fn api_add_fn<M, T>(manager: &M, this: &M::Edge, rhs: &M::Edge) -> (res: AllocResult<M::Edge>)
where M: Manager<Terminal = T> + HasApplyCache<M, MTBDDOp>, M::InnerNode: HasLevel, T: NumberBase,
//@spec
    requires num_laws::<T>(), edge_ok::<M::Edge>(), ok(this.view(), manager.num_levels_spec()), ok(rhs.view(), manager.num_levels_spec()),
    ensures res is Ok ==> ok(res->Ok_0.view(), manager.num_levels_spec())
        && forall|env: Env| #[trigger] val_at(res->Ok_0.view(), env) == api_add::<T>(val_at(this.view(), env), val_at(rhs.view(), env)),
//@end
//@fn file=crates/oxidd-core/src/function.rs path=trait:PseudoBooleanFunction/fn:sub rename=api_sub_fn selfcall=Self::> withmgr=this props=C10
//@header
fn api_sub_fn<M, T>(manager: &M, this: &M::Edge, rhs: &M::Edge) -> (res: AllocResult<M::Edge>)
where M: Manager<Terminal = T> + HasApplyCache<M, MTBDDOp>, M::InnerNode: HasLevel, T: NumberBase,
//@spec
    requires num_laws::<T>(), edge_ok::<M::Edge>(), ok(this.view(), manager.num_levels_spec()), ok(rhs.view(), manager.num_levels_spec()),
    ensures res is Ok ==> ok(res->Ok_0.view(), manager.num_levels_spec())
        && forall|env: Env| #[trigger] val_at(res->Ok_0.view(), env) == api_sub::<T>(val_at(this.view(), env), val_at(rhs.view(), env)),
//@end
//@fn file=crates/oxidd-core/src/function.rs path=trait:PseudoBooleanFunction/fn:mul rename=api_mul_fn selfcall=Self::> withmgr=this props=C10
//@header
fn api_mul_fn<M, T>(manager: &M, this: &M::Edge, rhs: &M::Edge) -> (res: AllocResult<M::Edge>)
where M: Manager<Terminal = T> + HasApplyCache<M, MTBDDOp>, M::InnerNode: HasLevel, T: NumberBase,
//@spec
    requires num_laws::<T>(), edge_ok::<M::Edge>(), ok(this.view(), manager.num_levels_spec()), ok(rhs.view(), manager.num_levels_spec()),
    ensures res is Ok ==> ok(res->Ok_0.view(), manager.num_levels_spec())
        && forall|env: Env| #[trigger] val_at(res->Ok_0.view(), env) == api_mul::<T>(val_at(this.view(), env), val_at(rhs.view(), env)),
//@end
//@fn file=crates/oxidd-core/src/function.rs path=trait:PseudoBooleanFunction/fn:div rename=api_div_fn selfcall=Self::> withmgr=this props=C10
//@header
fn api_div_fn<M, T>(manager: &M, this: &M::Edge, rhs: &M::Edge) -> (res: AllocResult<M::Edge>)
where M: Manager<Terminal = T> + HasApplyCache<M, MTBDDOp>, M::InnerNode: HasLevel, T: NumberBase,
//@spec
    requires num_laws::<T>(), edge_ok::<M::Edge>(), ok(this.view(), manager.num_levels_spec()), ok(rhs.view(), manager.num_levels_spec()),
    ensures res is Ok ==> ok(res->Ok_0.view(), manager.num_levels_spec())
        && forall|env: Env| #[trigger] val_at(res->Ok_0.view(), env) == api_div::<T>(val_at(this.view(), env), val_at(rhs.view(), env)),
//@end
//@fn file=crates/oxidd-core/src/function.rs path=trait:PseudoBooleanFunction/fn:min rename=api_min_fn selfcall=Self::> withmgr=this props=C10
//@header
fn api_min_fn<M, T>(manager: &M, this: &M::Edge, rhs: &M::Edge) -> (res: AllocResult<M::Edge>)
where M: Manager<Terminal = T> + HasApplyCache<M, MTBDDOp>, M::InnerNode: HasLevel, T: NumberBase,
//@spec
    requires num_laws::<T>(), edge_ok::<M::Edge>(), ok(this.view(), manager.num_levels_spec()), ok(rhs.view(), manager.num_levels_spec()),
    ensures res is Ok ==> ok(res->Ok_0.view(), manager.num_levels_spec())
        && forall|env: Env| #[trigger] val_at(res->Ok_0.view(), env) == api_min::<T>(val_at(this.view(), env), val_at(rhs.view(), env)),
//@end
//@fn file=crates/oxidd-core/src/function.rs path=trait:PseudoBooleanFunction/fn:max rename=api_max_fn selfcall=Self::> withmgr=this props=C10
//@header
fn api_max_fn<M, T>(manager: &M, this: &M::Edge, rhs: &M::Edge) -> (res: AllocResult<M::Edge>)
where M: Manager<Terminal = T> + HasApplyCache<M, MTBDDOp>, M::InnerNode: HasLevel, T: NumberBase,
//@spec
    requires num_laws::<T>(), edge_ok::<M::Edge>(), ok(this.view(), manager.num_levels_spec()), ok(rhs.view(), manager.num_levels_spec()),
    ensures res is Ok ==> ok(res->Ok_0.view(), manager.num_levels_spec())
        && forall|env: Env| #[trigger] val_at(res->Ok_0.view(), env) == api_max::<T>(val_at(this.view(), env), val_at(rhs.view(), env)),
//@end
//@fn file=crates/oxidd-core/src/function.rs path=trait:PseudoBooleanFunction/fn:restrict rename=api_restrict_fn selfcall=Self::> withmgr=this props=C10
//@header
fn api_restrict_fn<M, T>(manager: &M, this: &M::Edge, vars: &M::Edge) -> (res: AllocResult<M::Edge>)
where M: Manager<Terminal = T> + HasApplyCache<M, MTBDDOp>, M::InnerNode: HasLevel, T: NumberBase,
//@spec
    requires num_laws::<T>(), edge_ok::<M::Edge>(), ok(this.view(), manager.num_levels_spec()), ok(vars.view(), manager.num_levels_spec()),
    ensures res is Ok ==> restrict_post::<T>(this.view(), vars.view(), manager.num_levels_spec(), res->Ok_0.view()),
//@end
} // mod apply_rec
pub mod apply_rec_e {
use super::*;
broadcast use {leaf_lemmas, eval_lemmas};
//@fn file=crates/oxidd-rules-mtbdd/src/apply_rec.rs path=impl:PseudoBooleanFunction~for~MTBDDFunction<F>/fn:eval_edge/fn:inner rename=eval_edge__inner ret=r props=C10
//@header
fn eval_edge__inner<M, T: Clone + NumberBase>(manager: &M, edge: Borrowed<M::Edge>, choices: &FixedBitSet) -> (r: T)
where M: Manager<Terminal = T>, M::InnerNode: HasLevel,
//@spec
    requires wf(edge.view()), forall|a: T, b: T| cloned(a, b) ==> #[trigger] a.val() == #[trigger] b.val(),
    ensures r.val() == val_at(edge.view(), |l: int| !choices.spec_contains(l)),
    decreases edge.view(),
//@end
//@fn file=crates/oxidd-rules-mtbdd/src/apply_rec.rs path=impl:PseudoBooleanFunction~for~MTBDDFunction<F>/fn:eval_edge hoist=inner>eval_edge__inner forinv=0 ret=r props=C10
//@header
fn eval_edge<M, T: Clone + NumberBase>(manager: &M, edge: &M::Edge, args: ArgIter) -> (r: T)
where M: Manager<Terminal = T>, M::InnerNode: HasLevel,
//@spec
    requires ok(edge.view(), manager.num_levels_spec()), args.done() == Seq::<(u32, bool)>::empty(),
        forall|a: T, b: T| cloned(a, b) ==> #[trigger] a.val() == #[trigger] b.val(),
        // documented panic otherwise
        forall|i: int| 0 <= i < args.all().len() ==> (#[trigger] args.all()[i].0 as int) < manager.num_levels_spec(),
    ensures eval_post(edge.view(), args.all(), vl(manager), manager.num_levels_spec(), r.val()),
//@loop
    invariant
        iter__0.all() == args.all(), iter__0.done().len() <= iter__0.all().len(),
        forall|i: int| 0 <= i < iter__0.all().len() ==> (#[trigger] iter__0.all()[i].0 as int) < manager.num_levels_spec(),
        choices.bits@.len() == manager.num_levels_spec(),
        forall|l: int| !(#[trigger] choices.spec_contains(l)) == aenv(iter__0.done(), vl(manager), all_true())(l),
    ensures
        iter__0.all() == args.all(),
        forall|l: int| !(#[trigger] choices.spec_contains(l)) == aenv(iter__0.all(), vl(manager), all_true())(l),
    decreases iter__0.all().len() - iter__0.done().len(),
//@end
} // mod apply_rec_e
} // mod rules
} // verus!
fn main() {}
