// Contract bundle for crates/oxidd-rules-tdd/src/{lib,apply_rec}.rs  (C11, C06, C01 reduce)
// Three-valued logic: values are encoded as int 0 = false, 1 = unknown, 2 = true; the truth tables below are
// written from the property statement (Kleene strong not/and/or, Lukasiewicz imp/equiv, xor = not equiv,
// imp_strict(a,b) = not imp(b,a), and the stated ite table), not from the code.
#![allow(unused_imports, dead_code, unused_variables, unused_mut, unused_parens, unused_braces, noop_method_call, unreachable_patterns)]
use vstd::prelude::*;
use std::borrow::Borrow;
use vstd::std_specs::cmp::{PartialEqSpec, PartialOrdSpec, OrdSpec};
verus! {

// ---------- abstract view ----------
pub enum Tree { Leaf(int), Inner(u32, Box<Tree>, Box<Tree>, Box<Tree>) }
pub type Env = spec_fn(int) -> int;

pub open spec fn top(t: Tree) -> int {
    match t { Tree::Leaf(_) => u32::MAX as int, Tree::Inner(l, _, _, _) => l as int }
}
pub open spec fn wf(t: Tree) -> bool decreases t {
    match t {
        Tree::Leaf(v) => 0 <= v <= 2,
        Tree::Inner(l, a, b, c) => l < u32::MAX && (l as int) < top(*a) && (l as int) < top(*b) && (l as int) < top(*c)
            && !(*a == *b && *b == *c) && wf(*a) && wf(*b) && wf(*c),
    }
}
pub open spec fn below(t: Tree, n: int) -> bool decreases t {
    match t {
        Tree::Leaf(_) => true,
        Tree::Inner(l, a, b, c) => (l as int) < n && below(*a, n) && below(*b, n) && below(*c, n),
    }
}
/// value under a three-valued assignment (indexed by level): true child / unknown child / false child
pub open spec fn sem3(t: Tree, env: Env) -> int decreases t {
    match t {
        Tree::Leaf(v) => v,
        Tree::Inner(l, a, b, c) => if env(l as int) == 2 { sem3(*a, env) } else if env(l as int) == 1 { sem3(*b, env) } else { sem3(*c, env) },
    }
}
pub open spec fn mk(l: u32, a: Tree, b: Tree, c: Tree) -> Tree { Tree::Inner(l, Box::new(a), Box::new(b), Box::new(c)) }
pub open spec fn ok(t: Tree, n: int) -> bool { wf(t) && below(t, n) }
pub broadcast proof fn lemma_sem_mk(l: u32, a: Tree, b: Tree, c: Tree, env: Env)
    ensures #[trigger] sem3(mk(l, a, b, c), env) == (if env(l as int) == 2 { sem3(a, env) } else if env(l as int) == 1 { sem3(b, env) } else { sem3(c, env) }) {}
pub broadcast proof fn lemma_wf_mk(l: u32, a: Tree, b: Tree, c: Tree)
    ensures #[trigger] wf(mk(l, a, b, c)) == (l < u32::MAX && (l as int) < top(a) && (l as int) < top(b) && (l as int) < top(c)
        && !(a == b && b == c) && wf(a) && wf(b) && wf(c)) {}
pub broadcast proof fn lemma_below_mk(l: u32, a: Tree, b: Tree, c: Tree, n: int)
    ensures #[trigger] below(mk(l, a, b, c), n) == ((l as int) < n && below(a, n) && below(b, n) && below(c, n)) {}
/// a well-formed diagram only takes the three truth values
pub broadcast proof fn lemma_sem_range(t: Tree, env: Env)
    requires wf(t),
    ensures 0 <= #[trigger] sem3(t, env) <= 2,
    decreases t,
{
    match t {
        Tree::Leaf(_) => {}
        Tree::Inner(l, a, b, c) => { lemma_sem_range(*a, env); lemma_sem_range(*b, env); lemma_sem_range(*c, env); }
    }
}
pub broadcast group leaf_lemmas { lemma_sem_mk, lemma_wf_mk, lemma_below_mk, lemma_sem_range }

// ---------- canonicity (C01) for ternary diagrams ----------
pub open spec fn upd(env: Env, l: int, v: int) -> Env { |i: int| if i == l { v } else { env(i) } }
pub open spec fn agree_from(e1: Env, e2: Env, m: int) -> bool { forall|i: int| i >= m ==> #[trigger] e1(i) == e2(i) }
pub proof fn lemma_sem_agree(t: Tree, e1: Env, e2: Env)
    requires wf(t), agree_from(e1, e2, top(t)),
    ensures sem3(t, e1) == sem3(t, e2),
    decreases t,
{
    match t {
        Tree::Leaf(_) => {}
        Tree::Inner(l, a, b, c) => { lemma_sem_agree(*a, e1, e2); lemma_sem_agree(*b, e1, e2); lemma_sem_agree(*c, e1, e2); }
    }
}
pub proof fn lemma_sem_upd(t: Tree, env: Env, l: int, v: int)
    requires wf(t), l < top(t),
    ensures sem3(t, upd(env, l, v)) == sem3(t, env),
{
    lemma_sem_agree(t, upd(env, l, v), env);
}
/// cofactor of `t` w.r.t. level `l` taking value `v` (2 = true, 1 = unknown, 0 = false) when `l <= top(t)`
pub open spec fn cof(t: Tree, l: int, v: int) -> Tree {
    match t { Tree::Inner(k, a, b, c) => if k as int == l { if v == 2 { *a } else if v == 1 { *b } else { *c } } else { t }, _ => t }
}
//@lemma name=distinguish props=C01
pub proof fn distinguish(a: Tree, b: Tree) -> (env: Env)
    requires wf(a), wf(b), a != b,
    ensures sem3(a, env) != sem3(b, env), forall|i: int| 0 <= #[trigger] env(i) <= 2,
    decreases a, b,
{
    if a is Leaf && b is Leaf {
        |i: int| 0int
    } else {
        let l = if top(a) <= top(b) { top(a) } else { top(b) };
        // some value v in {2,1,0} separates the cofactors (otherwise both nodes would be equal or reducible)
        let v: int = if cof(a, l, 2) != cof(b, l, 2) { 2 } else if cof(a, l, 1) != cof(b, l, 1) { 1 } else { 0 };
        assert(cof(a, l, v) != cof(b, l, v));
        let e = distinguish(cof(a, l, v), cof(b, l, v));
        lemma_sem_upd(cof(a, l, v), e, l, v); lemma_sem_upd(cof(b, l, v), e, l, v);
        let r = upd(e, l, v);
        assert(sem3(a, r) == sem3(cof(a, l, v), r));
        assert(sem3(b, r) == sem3(cof(b, l, v), r));
        r
    }
}
//@lemma name=canonicity props=C01,C03
pub proof fn canonicity(a: Tree, b: Tree)
    requires wf(a), wf(b), forall|env: Env| (forall|i: int| 0 <= #[trigger] env(i) <= 2) ==> sem3(a, env) == sem3(b, env),
    ensures a == b,
{
    if a != b { let e = distinguish(a, b); assert(sem3(a, e) == sem3(b, e)); }
}
//@lemma name=handles_equal_iff_same_function props=C01
pub proof fn handles_equal_iff_same_function<E: Edge>(x: E, y: E)
    requires edge_ok::<E>(), wf(x.view()), wf(y.view()),
    ensures x.eq_spec(&y) <==> (forall|env: Env| (forall|i: int| 0 <= #[trigger] env(i) <= 2) ==> sem3(x.view(), env) == sem3(y.view(), env)),
{
    if forall|env: Env| (forall|i: int| 0 <= #[trigger] env(i) <= 2) ==> sem3(x.view(), env) == sem3(y.view(), env) { canonicity(x.view(), y.view()); }
}
//@lemma name=add_vars_preserves_function props=C01,C16
pub proof fn add_vars_preserves_function(t: Tree, n: int, e1: Env, e2: Env)
    requires below(t, n), forall|i: int| i < n ==> #[trigger] e1(i) == e2(i),
    ensures sem3(t, e1) == sem3(t, e2),
    decreases t,
{
    match t {
        Tree::Leaf(_) => {}
        Tree::Inner(l, a, b, c) => { add_vars_preserves_function(*a, n, e1, e2); add_vars_preserves_function(*b, n, e1, e2); add_vars_preserves_function(*c, n, e1, e2); }
    }
}

// ---------- the fixed three-valued truth tables (from the property statement) ----------
pub open spec fn t_not(a: int) -> int { 2 - a }
pub open spec fn t_and(a: int, b: int) -> int { if a <= b { a } else { b } }      // Kleene strong: minimum
pub open spec fn t_or(a: int, b: int) -> int { if a >= b { a } else { b } }       // Kleene strong: maximum
pub open spec fn t_imp(a: int, b: int) -> int { if 2 - a + b >= 2 { 2 } else { 2 - a + b } }   // Lukasiewicz: min(1, 1 - a + b)
pub open spec fn t_equiv(a: int, b: int) -> int { if a >= b { 2 - (a - b) } else { 2 - (b - a) } } // Lukasiewicz: 1 - |a - b|
pub open spec fn op_sem(op: u8, a: int, b: int) -> int {
    if op == TDDOp::And as u8 { t_and(a, b) }
    else if op == TDDOp::Or as u8 { t_or(a, b) }
    else if op == TDDOp::Nand as u8 { t_not(t_and(a, b)) }
    else if op == TDDOp::Nor as u8 { t_not(t_or(a, b)) }
    else if op == TDDOp::Xor as u8 { t_not(t_equiv(a, b)) }
    else if op == TDDOp::Equiv as u8 { t_equiv(a, b) }
    else if op == TDDOp::Imp as u8 { t_imp(a, b) }
    else { t_not(t_imp(b, a)) }
}
/// ite(a,b,c) is b if b = c or a is true, c if a is false, and for unknown a: or(a,c) if a = b, and(a,b) if a = c, unknown otherwise
pub open spec fn t_ite(a: int, b: int, c: int) -> int {
    if b == c || a == 2 { b } else if a == 0 { c } else if a == b { t_or(a, c) } else if a == c { t_and(a, b) } else { 1 }
}
pub open spec fn is_bin(op: u8) -> bool { TDDOp::And as u8 <= op <= TDDOp::ImpStrict as u8 }
pub open spec fn commutative(op: u8) -> bool { TDDOp::And as u8 <= op <= TDDOp::Equiv as u8 }
pub open spec fn res_top_ok2(r: Tree, a: Tree, b: Tree) -> bool { top(r) >= top(a) || top(r) >= top(b) }
pub open spec fn not_post(f: Tree, n: int, r: Tree) -> bool {
    ok(r, n) && top(r) >= top(f) && forall|env: Env| #[trigger] sem3(r, env) == t_not(sem3(f, env))
}
pub open spec fn bin_post(op: u8, f: Tree, g: Tree, n: int, r: Tree) -> bool {
    ok(r, n) && res_top_ok2(r, f, g) && forall|env: Env| #[trigger] sem3(r, env) == op_sem(op, sem3(f, env), sem3(g, env))
}
pub open spec fn ite_post(f: Tree, g: Tree, h: Tree, n: int, r: Tree) -> bool {
    ok(r, n) && (top(r) >= top(f) || top(r) >= top(g) || top(r) >= top(h))
    && forall|env: Env| #[trigger] sem3(r, env) == t_ite(sem3(f, env), sem3(g, env), sem3(h, env))
}

// ---------- environment stubs (ASSUMED manager contract) ----------
pub type LevelNo = u32;
pub type VarNo = u32;
#[derive(Debug)]
pub struct OutOfMemory;
pub type AllocResult<T> = Result<T, OutOfMemory>;
pub type Borrowed<'a, E> = &'a E;

pub trait Edge: Sized + Ord {
    type Tag: Copy + Default;
    spec fn view(&self) -> Tree;
    fn borrowed(&self) -> (r: Borrowed<'_, Self>) ensures r.view() == self.view();
    /// MTBDD edges carry no semantic tag
    fn with_tag_owned(self, tag: Self::Tag) -> (r: Self) ensures r.view() == self.view();
}
pub trait LevelSpec { spec fn level_spec(&self) -> u32; }
pub trait InnerNode<E: Edge>: Sized + LevelSpec {
    spec fn c0(&self) -> Tree;
    spec fn c1(&self) -> Tree;
    spec fn c2(&self) -> Tree;
    fn new(level: LevelNo, children: [E; 3]) -> (r: Self)
        ensures r.level_spec() == level, r.c0() == children[0].view(), r.c1() == children[1].view(), r.c2() == children[2].view();
    fn child(&self, n: usize) -> (r: Borrowed<'_, E>)
        requires n < 3
        ensures r.view() == (if n == 0 { self.c0() } else if n == 1 { self.c1() } else { self.c2() });
}
pub trait HasLevel: LevelSpec {
    fn level(&self) -> (l: LevelNo) ensures l == self.level_spec();
}
pub assume_specification<T: ?Sized> [<T as std::borrow::Borrow<T>>::borrow] (x: &T) -> (r: &T)
    ensures r == x;
pub assume_specification<T: Ord> [std::cmp::min] (a: T, b: T) -> (r: T)
    ensures T::obeys_cmp_spec() ==> r == (if b.cmp_spec(&a) == core::cmp::Ordering::Less { b } else { a });
/// hash-consing: handles are equal iff they denote the same stored diagram
pub open spec fn edge_ok<E: Edge>() -> bool {
    &&& E::obeys_eq_spec()
    &&& E::obeys_partial_cmp_spec()
    &&& forall|a: E, b: E| (#[trigger] a.eq_spec(&b)) <==> (a.view() == b.view())
}
pub trait TermView { spec fn tview(&self) -> int; }
pub enum Node<'a, M: Manager + 'a> {
    Inner(&'a M::InnerNode),
    Terminal(&'a M::Terminal),
}
impl<'a, M: Manager> Clone for Node<'a, M> { fn clone(&self) -> (r: Self) ensures r == *self { *self } }
impl<'a, M: Manager> Copy for Node<'a, M> {}
impl<'a, M: Manager> Node<'a, M> {
    pub fn unwrap_inner(self) -> (r: &'a M::InnerNode)
        requires self is Inner
        ensures self == Node::<'a, M>::Inner(r)
    { match self { Node::Inner(node) => node, Node::Terminal(_) => vstd::pervasive::unreached() } }
}
impl<'a, M: Manager> Node<'a, M> {
    pub fn is_any_terminal(self) -> (r: bool) ensures r == (self is Terminal)
    { match self { Node::Inner(_) => false, Node::Terminal(_) => true } }
}
impl<'a, M: Manager> Node<'a, M> where M::InnerNode: HasLevel {
    pub fn level(self) -> (r: LevelNo)
        ensures r == (match self { Node::Inner(node) => node.level_spec(), Node::Terminal(_) => u32::MAX })
    { match self { Node::Inner(node) => node.level(), Node::Terminal(_) => LevelNo::MAX } }
}
pub trait LevelView<E: Edge, N: InnerNode<E>> {
    spec fn level_no_spec(&self) -> u32;
    fn get_or_insert(&mut self, node: N) -> (r: AllocResult<E>)
        requires node.level_spec() == old(self).level_no_spec(),
        ensures r is Ok ==> r->Ok_0.view() == mk(node.level_spec(), node.c0(), node.c1(), node.c2());
}
pub trait Manager: Sized {
    type Edge: Edge;
    type InnerNode: InnerNode<Self::Edge>;
    type Terminal: TermView;
    type LevelView<'a>: LevelView<Self::Edge, Self::InnerNode> where Self: 'a;
    spec fn num_levels_spec(&self) -> int;
    spec fn var_to_level_spec(&self, v: int) -> int;
    fn get_node<'a>(&'a self, e: &'a Self::Edge) -> (n: Node<'a, Self>)
        ensures match n {
            Node::Inner(node) => e.view() == mk(node.level_spec(), node.c0(), node.c1(), node.c2()),
            Node::Terminal(t) => e.view() == Tree::Leaf(t.tview()),
        };
    fn clone_edge(&self, e: &Self::Edge) -> (r: Self::Edge) ensures r.view() == e.view();
    fn drop_edge(&self, e: Self::Edge);
    fn get_terminal(&self, t: Self::Terminal) -> (r: AllocResult<Self::Edge>)
        ensures r is Ok, r->Ok_0.view() == Tree::Leaf(t.tview());
    fn num_levels(&self) -> (n: LevelNo) ensures n as int == self.num_levels_spec();
    fn level(&self, no: LevelNo) -> (r: Self::LevelView<'_>)
        requires (no as int) < self.num_levels_spec()
        ensures r.level_no_spec() == no;
    fn var_to_level(&self, var: VarNo) -> (l: LevelNo)
        requires (var as int) < self.num_levels_spec()
        ensures l as int == self.var_to_level_spec(var as int), (l as int) < self.num_levels_spec() <= u32::MAX as int;
    spec fn level_to_var_spec(&self, l: int) -> int;
    fn level_to_var(&self, level: LevelNo) -> (v: VarNo)
        requires (level as int) < self.num_levels_spec()
        ensures v as int == self.level_to_var_spec(level as int), (v as int) < self.num_levels_spec();
}
pub mod oxidd_core {
    pub use super::LevelView;
    pub use super::VarNo;
    pub use super::Node;
}
/// `Function::as_edge(manager)` / `Function::from_edge(manager, e)`: a function handle is modelled by its root edge
pub trait AsEdgeExt: Sized { fn as_edge<M>(&self, manager: &M) -> (r: &Self) ensures r == self { self } }
impl<E: Edge> AsEdgeExt for E {}
pub struct EdgeDropGuard<'a, M: Manager> { pub manager: &'a M, pub edge: M::Edge }
impl<'a, M: Manager> EdgeDropGuard<'a, M> {
    pub fn new(manager: &'a M, edge: M::Edge) -> (r: Self) ensures r.edge.view() == edge.view() { EdgeDropGuard { manager, edge } }
    pub fn into_edge(self) -> (r: M::Edge) ensures r.view() == self.edge.view() { self.edge }
    pub fn borrowed(&self) -> (r: Borrowed<'_, M::Edge>) ensures r.view() == self.edge.view() { &self.edge }
}
pub trait CacheOp: Copy { spec fn inv(self, operands: Seq<Tree>, n: int, res: Tree) -> bool; }
pub open spec fn views<E: Edge>(s: Seq<&E>) -> Seq<Tree> { s.map_values(|e: &E| e.view()) }
pub trait ApplyCache<M: Manager, O: CacheOp> {
    fn get(&self, manager: &M, operator: O, operands: &[Borrowed<M::Edge>]) -> (r: Option<M::Edge>)
        ensures match r { Some(h) => operator.inv(views(operands@), manager.num_levels_spec(), h.view()), None => true };
    fn add(&self, manager: &M, operator: O, operands: &[Borrowed<M::Edge>], value: Borrowed<M::Edge>)
        requires operator.inv(views(operands@), manager.num_levels_spec(), value.view());
}
pub trait HasApplyCache<M: Manager, O: CacheOp> {
    type ApplyCache: ApplyCache<M, O>;
    fn apply_cache(&self) -> &Self::ApplyCache;
}
/// stub of fixedbitset::FixedBitSet (only `contains` is used by verified code)
pub struct FixedBitSet { pub bits: Vec<bool> }
impl FixedBitSet {
    pub open spec fn spec_contains(&self, i: int) -> bool { 0 <= i < self.bits@.len() && self.bits@[i] }
    pub fn contains(&self, bit: usize) -> (r: bool) ensures r == self.spec_contains(bit as int)
    { if bit < self.bits.len() { self.bits[bit] } else { false } }
}

// ---------- items copied from the real crates ----------
//@const file=crates/oxidd-rules-tdd/src/apply_rec.rs path=impl:TVLFunction~for~TDDFunction<F>/fn:eval_edge/fn:inner name=ELEMENTS_PER_BLOCK rename=EVAL_ELEMENTS_PER_BLOCK vis=pub
//@item file=crates/oxidd-rules-tdd/src/lib.rs path=impl:From<TDDTerminal>~for~Option<bool> props=C11
//@end
impl vstd::std_specs::convert::FromSpecImpl<TDDTerminal> for Option<bool> {
    open spec fn obeys_from_spec() -> bool { true }
    open spec fn from_spec(v: TDDTerminal) -> Option<bool> { match v { TDDTerminal::False => Some(false), TDDTerminal::Unknown => None, TDDTerminal::True => Some(true) } }
}
/// the 2-bit choice of level `l` in the packed vector built by `eval_edge` (0 = true child, 1 = unknown child, 2 = false child)
pub open spec fn choice_at(choices: Seq<u32>, l: u32) -> u32 {
    (choices[(l / EVAL_ELEMENTS_PER_BLOCK) as int] >> (2 * (l % EVAL_ELEMENTS_PER_BLOCK))) & 0b11
}
pub open spec fn tv_of_choice(c: u32) -> int { if c == 0 { 2 } else if c == 1 { 1 } else { 0 } }
pub open spec fn opt_of_tv(v: int) -> Option<bool> { if v == 2 { Some(true) } else if v == 0 { Some(false) } else { None } }
pub broadcast proof fn lemma_and3(x: u32) ensures #[trigger] (x & 0b11) <= 3 { assert((x & 0b11) <= 3) by (bit_vector); }
pub broadcast group bit_lemmas { lemma_and3 }

//@item file=crates/oxidd-rules-tdd/src/lib.rs path=enum:TDDTerminal attrs="#[derive(Clone, Copy, PartialEq, Eq, Structural)]" vis=pub
//@end
//@item file=crates/oxidd-rules-tdd/src/lib.rs path=enum:TDDOp attrs="#[derive(Clone, Copy, PartialEq, Eq, Structural)] #[repr(u8)]" vis=pub
//@end
//@item file=crates/oxidd-rules-tdd/src/lib.rs path=enum:Operation vis=pub
//@end
//@item file=crates/oxidd-core/src/lib.rs path=enum:ReducedOrNew vis=pub
//@end
//@item file=crates/oxidd-rules-tdd/src/lib.rs path=impl:std::ops::Not~for~TDDTerminal props=C11
//@end
impl vstd::std_specs::ops::NotSpecImpl for TDDTerminal {
    open spec fn obeys_not_spec() -> bool { true }
    open spec fn not_req(self) -> bool { true }
    open spec fn not_spec(self) -> TDDTerminal { match self { TDDTerminal::False => TDDTerminal::True, TDDTerminal::Unknown => TDDTerminal::Unknown, TDDTerminal::True => TDDTerminal::False } }
}
impl TermView for TDDTerminal {
    open spec fn tview(&self) -> int { match *self { TDDTerminal::False => 0, TDDTerminal::Unknown => 1, TDDTerminal::True => 2 } }
}
impl CacheOp for TDDOp {
    open spec fn inv(self, operands: Seq<Tree>, n: int, res: Tree) -> bool {
        let o = self as u8;
        if o == TDDOp::Not as u8 { operands.len() == 1 && not_post(operands[0], n, res) }
        else if is_bin(o) { operands.len() == 2 && bin_post(o, operands[0], operands[1], n, res) }
        else if o == TDDOp::Ite as u8 { operands.len() == 3 && ite_post(operands[0], operands[1], operands[2], n, res) }
        else { false }
    }
}
/// R10 helper for `DiagramRules::reduce`: the `impl IntoIterator<Item = E>` argument, always called with `[t, u, e]`
pub struct Children3<E> { pub a: Option<E>, pub b: Option<E>, pub c: Option<E> }
impl<E: Edge> Children3<E> {
    pub fn into_iter(self) -> (r: Self) ensures r == self { self }
    pub fn next(&mut self) -> (r: Option<E>)
        ensures r == old(self).a, final(self).a == old(self).b, final(self).b == old(self).c, final(self).c == None::<E>,
    { let r = self.a.take(); self.a = self.b.take(); self.b = self.c.take(); r }
}

mod rules {
use super::*;
broadcast use leaf_lemmas;
pub struct TDDRules;
impl TDDRules {
//@fn file=crates/oxidd-rules-tdd/src/lib.rs path=impl:DiagramRules<E,~N,~TDDTerminal>~for~TDDRules/fn:reduce props=C01,C03,C11 vis=pub
//@header
fn reduce<E: Edge, N: InnerNode<E>, M: Manager<Edge = E, InnerNode = N>>(manager: &M, level: LevelNo, children: Children3<E>) -> (res: ReducedOrNew<E, N>)
//@spec
    requires edge_ok::<E>(), children.a is Some, children.b is Some, children.c is Some,
    ensures ({ let (a, b, c) = (children.a->Some_0.view(), children.b->Some_0.view(), children.c->Some_0.view()); match res {
        ReducedOrNew::Reduced(e) => a == b && b == c && e.view() == a,
        ReducedOrNew::New(node, _) => !(a == b && b == c) && node.level_spec() == level && node.c0() == a && node.c1() == b && node.c2() == c,
    } }),
//@end
}
impl<E: Edge, N: InnerNode<E>> ReducedOrNew<E, N> {
//@fn file=crates/oxidd-core/src/lib.rs path=impl:ReducedOrNew<E,~N>/fn:then_insert props=C01,C03,C11 vis=pub
//@spec
    requires (level as int) < manager.num_levels_spec(), self matches ReducedOrNew::New(node, _) ==> node.level_spec() == level,
    ensures res is Ok ==> res->Ok_0.view() == (match self { ReducedOrNew::Reduced(e) => e.view(), ReducedOrNew::New(node, _) => mk(node.level_spec(), node.c0(), node.c1(), node.c2()) }),
//@end
}
/// what callers of `<TDDRules as DiagramRules<_,_,_>>::reduce(manager, level, [t, u, e])` see (proved above on the real body)
#[verifier::external_body]
pub fn rules_reduce<E: Edge, N: InnerNode<E>, M: Manager<Edge = E, InnerNode = N>>(manager: &M, level: LevelNo, children: [E; 3]) -> (res: ReducedOrNew<E, N>)
    requires edge_ok::<E>(),
    ensures ({ let (a, b, c) = (children[0].view(), children[1].view(), children[2].view()); match res {
        ReducedOrNew::Reduced(e) => a == b && b == c && e.view() == a,
        ReducedOrNew::New(node, _) => !(a == b && b == c) && node.level_spec() == level && node.c0() == a && node.c1() == b && node.c2() == c,
    } }),
{ unimplemented!() }

//@fn file=crates/oxidd-rules-tdd/src/lib.rs path=fn:reduce#1 props=C01,C03,C11 subst_text=<TDDRules~as~DiagramRules<_,~_,~_>>::reduce::=rules_reduce vis=pub
//@spec
    requires edge_ok::<M::Edge>(), (level as int) < manager.num_levels_spec(),
        ok(t.view(), manager.num_levels_spec()), ok(u.view(), manager.num_levels_spec()), ok(e.view(), manager.num_levels_spec()),
        (level as int) < top(t.view()), (level as int) < top(u.view()), (level as int) < top(e.view()),
    ensures res is Ok ==> ok(res->Ok_0.view(), manager.num_levels_spec()) && top(res->Ok_0.view()) >= level
        && res->Ok_0.view() == (if t.view() == u.view() && u.view() == e.view() { t.view() } else { mk(level, t.view(), u.view(), e.view()) })
        && forall|env: Env| #[trigger] sem3(res->Ok_0.view(), env) == (if env(level as int) == 2 { sem3(t.view(), env) } else if env(level as int) == 1 { sem3(u.view(), env) } else { sem3(e.view(), env) }),
//@end
//@fn file=crates/oxidd-rules-tdd/src/lib.rs path=fn:collect_children mode=stub ret=r vis=pub
//@spec
    ensures r.0.view() == node.c0(), r.1.view() == node.c1(), r.2.view() == node.c2(),
//@end
//@fn file=crates/oxidd-rules-tdd/src/lib.rs path=fn:terminal_bin props=C11,C06 vis=pub cases=OP:TDDOp::And~as~u8,TDDOp::Or~as~u8,TDDOp::Nand~as~u8,TDDOp::Nor~as~u8,TDDOp::Xor~as~u8,TDDOp::Equiv~as~u8,TDDOp::Imp~as~u8,TDDOp::ImpStrict~as~u8
//@spec
    requires is_bin(OP), edge_ok::<M::Edge>(), ok(f.view(), m.num_levels_spec()), ok(g.view(), m.num_levels_spec()),
    ensures match res {
        Operation::Done(h) => bin_post(OP, f.view(), g.view(), m.num_levels_spec(), h.view()),
        Operation::Not(x) => (x.view() == f.view() || x.view() == g.view()) && forall|env: Env| t_not(#[trigger] sem3(x.view(), env)) == op_sem(OP, sem3(f.view(), env), sem3(g.view(), env)),
        Operation::Binary(o, a, b) => o as u8 == OP && (f.view() is Inner || g.view() is Inner)
            && ((a.view() == f.view() && b.view() == g.view()) || (a.view() == g.view() && b.view() == f.view() && commutative(OP))),
    },
//@end

pub mod apply_rec {
use super::*;
broadcast use {leaf_lemmas, bit_lemmas};
//@fn file=crates/oxidd-rules-tdd/src/apply_rec.rs path=fn:apply_not props=C11,C06 vis=pub
//@spec
    requires edge_ok::<M::Edge>(), ok(f.view(), manager.num_levels_spec()),
    ensures res is Ok ==> not_post(f.view(), manager.num_levels_spec(), res->Ok_0.view()),
    decreases f.view(),
//@end
//@fn file=crates/oxidd-rules-tdd/src/apply_rec.rs path=fn:apply_bin nodecr props=C11,C06 vis=pub cases=OP:TDDOp::And~as~u8,TDDOp::Or~as~u8,TDDOp::Nand~as~u8,TDDOp::Nor~as~u8,TDDOp::Xor~as~u8,TDDOp::Equiv~as~u8,TDDOp::Imp~as~u8,TDDOp::ImpStrict~as~u8
//@spec
    requires is_bin(OP), edge_ok::<M::Edge>(), ok(f.view(), manager.num_levels_spec()), ok(g.view(), manager.num_levels_spec()),
    ensures res is Ok ==> bin_post(OP, f.view(), g.view(), manager.num_levels_spec(), res->Ok_0.view()),
//@end
//@fn file=crates/oxidd-rules-tdd/src/apply_rec.rs path=fn:apply_ite_rec nodecr props=C11,C06 vis=pub
//@spec
    requires edge_ok::<M::Edge>(), ok(f.view(), manager.num_levels_spec()), ok(g.view(), manager.num_levels_spec()), ok(h.view(), manager.num_levels_spec()),
    ensures res is Ok ==> ite_post(f.view(), g.view(), h.view(), manager.num_levels_spec(), res->Ok_0.view()),
//@end
//@fn file=crates/oxidd-rules-tdd/src/apply_rec.rs path=impl:TVLFunction~for~TDDFunction<F>/fn:and_edge props=C11
//@header
fn and_edge<M>(manager: &M, lhs: &M::Edge, rhs: &M::Edge) -> (res: AllocResult<M::Edge>)
where M: Manager<Terminal = TDDTerminal> + HasApplyCache<M, TDDOp>, M::InnerNode: HasLevel,
//@spec
    requires edge_ok::<M::Edge>(), ok(lhs.view(), manager.num_levels_spec()), ok(rhs.view(), manager.num_levels_spec()),
    ensures res is Ok ==> bin_post(TDDOp::And as u8, lhs.view(), rhs.view(), manager.num_levels_spec(), res->Ok_0.view()),
//@end
//@fn file=crates/oxidd-rules-tdd/src/apply_rec.rs path=impl:TVLFunction~for~TDDFunction<F>/fn:or_edge props=C11
//@header
fn or_edge<M>(manager: &M, lhs: &M::Edge, rhs: &M::Edge) -> (res: AllocResult<M::Edge>)
where M: Manager<Terminal = TDDTerminal> + HasApplyCache<M, TDDOp>, M::InnerNode: HasLevel,
//@spec
    requires edge_ok::<M::Edge>(), ok(lhs.view(), manager.num_levels_spec()), ok(rhs.view(), manager.num_levels_spec()),
    ensures res is Ok ==> bin_post(TDDOp::Or as u8, lhs.view(), rhs.view(), manager.num_levels_spec(), res->Ok_0.view()),
//@end
//@fn file=crates/oxidd-rules-tdd/src/apply_rec.rs path=impl:TVLFunction~for~TDDFunction<F>/fn:nand_edge props=C11
//@header
fn nand_edge<M>(manager: &M, lhs: &M::Edge, rhs: &M::Edge) -> (res: AllocResult<M::Edge>)
where M: Manager<Terminal = TDDTerminal> + HasApplyCache<M, TDDOp>, M::InnerNode: HasLevel,
//@spec
    requires edge_ok::<M::Edge>(), ok(lhs.view(), manager.num_levels_spec()), ok(rhs.view(), manager.num_levels_spec()),
    ensures res is Ok ==> bin_post(TDDOp::Nand as u8, lhs.view(), rhs.view(), manager.num_levels_spec(), res->Ok_0.view()),
//@end
//@fn file=crates/oxidd-rules-tdd/src/apply_rec.rs path=impl:TVLFunction~for~TDDFunction<F>/fn:nor_edge props=C11
//@header
fn nor_edge<M>(manager: &M, lhs: &M::Edge, rhs: &M::Edge) -> (res: AllocResult<M::Edge>)
where M: Manager<Terminal = TDDTerminal> + HasApplyCache<M, TDDOp>, M::InnerNode: HasLevel,
//@spec
    requires edge_ok::<M::Edge>(), ok(lhs.view(), manager.num_levels_spec()), ok(rhs.view(), manager.num_levels_spec()),
    ensures res is Ok ==> bin_post(TDDOp::Nor as u8, lhs.view(), rhs.view(), manager.num_levels_spec(), res->Ok_0.view()),
//@end
//@fn file=crates/oxidd-rules-tdd/src/apply_rec.rs path=impl:TVLFunction~for~TDDFunction<F>/fn:xor_edge props=C11
//@header
fn xor_edge<M>(manager: &M, lhs: &M::Edge, rhs: &M::Edge) -> (res: AllocResult<M::Edge>)
where M: Manager<Terminal = TDDTerminal> + HasApplyCache<M, TDDOp>, M::InnerNode: HasLevel,
//@spec
    requires edge_ok::<M::Edge>(), ok(lhs.view(), manager.num_levels_spec()), ok(rhs.view(), manager.num_levels_spec()),
    ensures res is Ok ==> bin_post(TDDOp::Xor as u8, lhs.view(), rhs.view(), manager.num_levels_spec(), res->Ok_0.view()),
//@end
//@fn file=crates/oxidd-rules-tdd/src/apply_rec.rs path=impl:TVLFunction~for~TDDFunction<F>/fn:equiv_edge props=C11
//@header
fn equiv_edge<M>(manager: &M, lhs: &M::Edge, rhs: &M::Edge) -> (res: AllocResult<M::Edge>)
where M: Manager<Terminal = TDDTerminal> + HasApplyCache<M, TDDOp>, M::InnerNode: HasLevel,
//@spec
    requires edge_ok::<M::Edge>(), ok(lhs.view(), manager.num_levels_spec()), ok(rhs.view(), manager.num_levels_spec()),
    ensures res is Ok ==> bin_post(TDDOp::Equiv as u8, lhs.view(), rhs.view(), manager.num_levels_spec(), res->Ok_0.view()),
//@end
//@fn file=crates/oxidd-rules-tdd/src/apply_rec.rs path=impl:TVLFunction~for~TDDFunction<F>/fn:imp_edge props=C11
//@header
fn imp_edge<M>(manager: &M, lhs: &M::Edge, rhs: &M::Edge) -> (res: AllocResult<M::Edge>)
where M: Manager<Terminal = TDDTerminal> + HasApplyCache<M, TDDOp>, M::InnerNode: HasLevel,
//@spec
    requires edge_ok::<M::Edge>(), ok(lhs.view(), manager.num_levels_spec()), ok(rhs.view(), manager.num_levels_spec()),
    ensures res is Ok ==> bin_post(TDDOp::Imp as u8, lhs.view(), rhs.view(), manager.num_levels_spec(), res->Ok_0.view()),
//@end
//@fn file=crates/oxidd-rules-tdd/src/apply_rec.rs path=impl:TVLFunction~for~TDDFunction<F>/fn:imp_strict_edge props=C11
//@header
fn imp_strict_edge<M>(manager: &M, lhs: &M::Edge, rhs: &M::Edge) -> (res: AllocResult<M::Edge>)
where M: Manager<Terminal = TDDTerminal> + HasApplyCache<M, TDDOp>, M::InnerNode: HasLevel,
//@spec
    requires edge_ok::<M::Edge>(), ok(lhs.view(), manager.num_levels_spec()), ok(rhs.view(), manager.num_levels_spec()),
    ensures res is Ok ==> bin_post(TDDOp::ImpStrict as u8, lhs.view(), rhs.view(), manager.num_levels_spec(), res->Ok_0.view()),
//@end
//@fn file=crates/oxidd-rules-tdd/src/apply_rec.rs path=impl:TVLFunction~for~TDDFunction<F>/fn:not_edge props=C11
//@header
fn not_edge<M>(manager: &M, edge: &M::Edge) -> (res: AllocResult<M::Edge>)
where M: Manager<Terminal = TDDTerminal> + HasApplyCache<M, TDDOp>, M::InnerNode: HasLevel,
//@spec
    requires edge_ok::<M::Edge>(), ok(edge.view(), manager.num_levels_spec()),
    ensures res is Ok ==> not_post(edge.view(), manager.num_levels_spec(), res->Ok_0.view()),
//@end
//@fn file=crates/oxidd-rules-tdd/src/apply_rec.rs path=impl:TVLFunction~for~TDDFunction<F>/fn:ite_edge props=C11
//@header
fn ite_edge<M>(manager: &M, if_edge: &M::Edge, then_edge: &M::Edge, else_edge: &M::Edge) -> (res: AllocResult<M::Edge>)
where M: Manager<Terminal = TDDTerminal> + HasApplyCache<M, TDDOp>, M::InnerNode: HasLevel,
//@spec
    requires edge_ok::<M::Edge>(), ok(if_edge.view(), manager.num_levels_spec()), ok(then_edge.view(), manager.num_levels_spec()), ok(else_edge.view(), manager.num_levels_spec()),
    ensures res is Ok ==> ite_post(if_edge.view(), then_edge.view(), else_edge.view(), manager.num_levels_spec(), res->Ok_0.view()),
//@end
//@fn file=crates/oxidd-rules-tdd/src/apply_rec.rs path=impl:TVLFunction~for~TDDFunction<F>/fn:var_edge props=C11,C03
//@header
fn var_edge<M>(manager: &M, var: VarNo) -> (res: AllocResult<M::Edge>)
where M: Manager<Terminal = TDDTerminal> + HasApplyCache<M, TDDOp>, M::InnerNode: HasLevel,
//@spec
    requires (var as int) < manager.num_levels_spec(),
    ensures res is Ok ==> ok(res->Ok_0.view(), manager.num_levels_spec())
        && forall|env: Env| 0 <= env(manager.var_to_level_spec(var as int)) <= 2 ==> #[trigger] sem3(res->Ok_0.view(), env) == env(manager.var_to_level_spec(var as int)),
//@end
//@fn file=crates/oxidd-rules-tdd/src/apply_rec.rs path=impl:TVLFunction~for~TDDFunction<F>/fn:f_edge props=C11
//@header
fn f_edge<M>(manager: &M) -> (res: M::Edge)
where M: Manager<Terminal = TDDTerminal> + HasApplyCache<M, TDDOp>, M::InnerNode: HasLevel,
//@spec
    ensures res.view() == Tree::Leaf(0),
//@end
//@fn file=crates/oxidd-rules-tdd/src/apply_rec.rs path=impl:TVLFunction~for~TDDFunction<F>/fn:u_edge props=C11
//@header
fn u_edge<M>(manager: &M) -> (res: M::Edge)
where M: Manager<Terminal = TDDTerminal> + HasApplyCache<M, TDDOp>, M::InnerNode: HasLevel,
//@spec
    ensures res.view() == Tree::Leaf(1),
//@end
//@fn file=crates/oxidd-rules-tdd/src/apply_rec.rs path=impl:TVLFunction~for~TDDFunction<F>/fn:t_edge props=C11
//@header
fn t_edge<M>(manager: &M) -> (res: M::Edge)
where M: Manager<Terminal = TDDTerminal> + HasApplyCache<M, TDDOp>, M::InnerNode: HasLevel,
//@spec
    ensures res.view() == Tree::Leaf(2),
//@end
//@fn file=crates/oxidd-rules-tdd/src/apply_rec.rs path=impl:TVLFunction~for~TDDFunction<F>/fn:eval_edge/fn:inner rename=eval_edge__inner hoist=ELEMENTS_PER_BLOCK>EVAL_ELEMENTS_PER_BLOCK ret=r props=C11
//@spec
    requires ok(edge.view(), manager.num_levels_spec()), EVAL_ELEMENTS_PER_BLOCK > 0,
        forall|l: u32| (l as int) < manager.num_levels_spec() ==> ((#[trigger] (l / EVAL_ELEMENTS_PER_BLOCK)) as int) < choices@.len(),
        // the packed vector holds a legal child number for every level
        forall|l: u32| (l as int) < manager.num_levels_spec() ==> #[trigger] choice_at(choices@, l) != 3,
    ensures r == opt_of_tv(sem3(edge.view(), |l: int| tv_of_choice(choice_at(choices@, l as u32)))),
    decreases edge.view(),
//@end
/// a function handle is modelled by its root edge (`Function::from_edge` wraps the edge together with the manager reference)
pub fn from_edge<M: Manager>(manager: &M, e: M::Edge) -> (r: M::Edge) ensures r.view() == e.view() { e }
// default methods of `TVLFunction` in oxidd-core/src/function.rs (the API constants f / t / u)
//@fn file=crates/oxidd-core/src/function.rs path=trait:TVLFunction/fn:f selfcall=Self::> rename=tvl_f props=C11
//@header
fn tvl_f<M>(manager: &M) -> (res: M::Edge)
where M: Manager<Terminal = TDDTerminal> + HasApplyCache<M, TDDOp>, M::InnerNode: HasLevel,
//@spec
    ensures res.view() == Tree::Leaf(0),
//@end
//@fn file=crates/oxidd-core/src/function.rs path=trait:TVLFunction/fn:t selfcall=Self::> rename=tvl_t props=C11
//@header
fn tvl_t<M>(manager: &M) -> (res: M::Edge)
where M: Manager<Terminal = TDDTerminal> + HasApplyCache<M, TDDOp>, M::InnerNode: HasLevel,
//@spec
    ensures res.view() == Tree::Leaf(2),
//@end
//@fn file=crates/oxidd-core/src/function.rs path=trait:TVLFunction/fn:u selfcall=Self::> rename=tvl_u props=C11
//@header
fn tvl_u<M>(manager: &M) -> (res: M::Edge)
where M: Manager<Terminal = TDDTerminal> + HasApplyCache<M, TDDOp>, M::InnerNode: HasLevel,
//@spec
    ensures res.view() == Tree::Leaf(1),
//@end
// ---------- default methods of TVLFunction in oxidd-core/src/function.rs (user-facing API; rule R15) ----------
//@fn file=crates/oxidd-core/src/function.rs path=trait:TVLFunction/fn:and rename=api_and selfcall=Self::> withmgr=this props=C11
//@header
fn api_and<M>(manager: &M, this: &M::Edge, rhs: &M::Edge) -> (res: AllocResult<M::Edge>)
where M: Manager<Terminal = TDDTerminal> + HasApplyCache<M, TDDOp>, M::InnerNode: HasLevel,
//@spec
    requires edge_ok::<M::Edge>(), ok(this.view(), manager.num_levels_spec()), ok(rhs.view(), manager.num_levels_spec()),
    ensures res is Ok ==> bin_post(TDDOp::And as u8, this.view(), rhs.view(), manager.num_levels_spec(), res->Ok_0.view()),
//@end
//@fn file=crates/oxidd-core/src/function.rs path=trait:TVLFunction/fn:or rename=api_or selfcall=Self::> withmgr=this props=C11
//@header
fn api_or<M>(manager: &M, this: &M::Edge, rhs: &M::Edge) -> (res: AllocResult<M::Edge>)
where M: Manager<Terminal = TDDTerminal> + HasApplyCache<M, TDDOp>, M::InnerNode: HasLevel,
//@spec
    requires edge_ok::<M::Edge>(), ok(this.view(), manager.num_levels_spec()), ok(rhs.view(), manager.num_levels_spec()),
    ensures res is Ok ==> bin_post(TDDOp::Or as u8, this.view(), rhs.view(), manager.num_levels_spec(), res->Ok_0.view()),
//@end
//@fn file=crates/oxidd-core/src/function.rs path=trait:TVLFunction/fn:nand rename=api_nand selfcall=Self::> withmgr=this props=C11
//@header
fn api_nand<M>(manager: &M, this: &M::Edge, rhs: &M::Edge) -> (res: AllocResult<M::Edge>)
where M: Manager<Terminal = TDDTerminal> + HasApplyCache<M, TDDOp>, M::InnerNode: HasLevel,
//@spec
    requires edge_ok::<M::Edge>(), ok(this.view(), manager.num_levels_spec()), ok(rhs.view(), manager.num_levels_spec()),
    ensures res is Ok ==> bin_post(TDDOp::Nand as u8, this.view(), rhs.view(), manager.num_levels_spec(), res->Ok_0.view()),
//@end
//@fn file=crates/oxidd-core/src/function.rs path=trait:TVLFunction/fn:nor rename=api_nor selfcall=Self::> withmgr=this props=C11
//@header
fn api_nor<M>(manager: &M, this: &M::Edge, rhs: &M::Edge) -> (res: AllocResult<M::Edge>)
where M: Manager<Terminal = TDDTerminal> + HasApplyCache<M, TDDOp>, M::InnerNode: HasLevel,
//@spec
    requires edge_ok::<M::Edge>(), ok(this.view(), manager.num_levels_spec()), ok(rhs.view(), manager.num_levels_spec()),
    ensures res is Ok ==> bin_post(TDDOp::Nor as u8, this.view(), rhs.view(), manager.num_levels_spec(), res->Ok_0.view()),
//@end
//@fn file=crates/oxidd-core/src/function.rs path=trait:TVLFunction/fn:xor rename=api_xor selfcall=Self::> withmgr=this props=C11
//@header
fn api_xor<M>(manager: &M, this: &M::Edge, rhs: &M::Edge) -> (res: AllocResult<M::Edge>)
where M: Manager<Terminal = TDDTerminal> + HasApplyCache<M, TDDOp>, M::InnerNode: HasLevel,
//@spec
    requires edge_ok::<M::Edge>(), ok(this.view(), manager.num_levels_spec()), ok(rhs.view(), manager.num_levels_spec()),
    ensures res is Ok ==> bin_post(TDDOp::Xor as u8, this.view(), rhs.view(), manager.num_levels_spec(), res->Ok_0.view()),
//@end
//@fn file=crates/oxidd-core/src/function.rs path=trait:TVLFunction/fn:equiv rename=api_equiv selfcall=Self::> withmgr=this props=C11
//@header
fn api_equiv<M>(manager: &M, this: &M::Edge, rhs: &M::Edge) -> (res: AllocResult<M::Edge>)
where M: Manager<Terminal = TDDTerminal> + HasApplyCache<M, TDDOp>, M::InnerNode: HasLevel,
//@spec
    requires edge_ok::<M::Edge>(), ok(this.view(), manager.num_levels_spec()), ok(rhs.view(), manager.num_levels_spec()),
    ensures res is Ok ==> bin_post(TDDOp::Equiv as u8, this.view(), rhs.view(), manager.num_levels_spec(), res->Ok_0.view()),
//@end
//@fn file=crates/oxidd-core/src/function.rs path=trait:TVLFunction/fn:imp rename=api_imp selfcall=Self::> withmgr=this props=C11
//@header
fn api_imp<M>(manager: &M, this: &M::Edge, rhs: &M::Edge) -> (res: AllocResult<M::Edge>)
where M: Manager<Terminal = TDDTerminal> + HasApplyCache<M, TDDOp>, M::InnerNode: HasLevel,
//@spec
    requires edge_ok::<M::Edge>(), ok(this.view(), manager.num_levels_spec()), ok(rhs.view(), manager.num_levels_spec()),
    ensures res is Ok ==> bin_post(TDDOp::Imp as u8, this.view(), rhs.view(), manager.num_levels_spec(), res->Ok_0.view()),
//@end
//@fn file=crates/oxidd-core/src/function.rs path=trait:TVLFunction/fn:imp_strict rename=api_imp_strict selfcall=Self::> withmgr=this props=C11
//@header
fn api_imp_strict<M>(manager: &M, this: &M::Edge, rhs: &M::Edge) -> (res: AllocResult<M::Edge>)
where M: Manager<Terminal = TDDTerminal> + HasApplyCache<M, TDDOp>, M::InnerNode: HasLevel,
//@spec
    requires edge_ok::<M::Edge>(), ok(this.view(), manager.num_levels_spec()), ok(rhs.view(), manager.num_levels_spec()),
    ensures res is Ok ==> bin_post(TDDOp::ImpStrict as u8, this.view(), rhs.view(), manager.num_levels_spec(), res->Ok_0.view()),
//@end
//@fn file=crates/oxidd-core/src/function.rs path=trait:TVLFunction/fn:not rename=api_not selfcall=Self::> withmgr=this props=C11
//@header
fn api_not<M>(manager: &M, this: &M::Edge) -> (res: AllocResult<M::Edge>)
where M: Manager<Terminal = TDDTerminal> + HasApplyCache<M, TDDOp>, M::InnerNode: HasLevel,
//@spec
    requires edge_ok::<M::Edge>(), ok(this.view(), manager.num_levels_spec()),
    ensures res is Ok ==> not_post(this.view(), manager.num_levels_spec(), res->Ok_0.view()),
//@end
//@fn file=crates/oxidd-core/src/function.rs path=trait:TVLFunction/fn:ite rename=api_ite selfcall=Self::> withmgr=this props=C11
//@header
fn api_ite<M>(manager: &M, this: &M::Edge, then_case: &M::Edge, else_case: &M::Edge) -> (res: AllocResult<M::Edge>)
where M: Manager<Terminal = TDDTerminal> + HasApplyCache<M, TDDOp>, M::InnerNode: HasLevel,
//@spec
    requires edge_ok::<M::Edge>(), ok(this.view(), manager.num_levels_spec()), ok(then_case.view(), manager.num_levels_spec()), ok(else_case.view(), manager.num_levels_spec()),
    ensures res is Ok ==> ite_post(this.view(), then_case.view(), else_case.view(), manager.num_levels_spec(), res->Ok_0.view()),
//@end
} // mod apply_rec
} // mod rules
} // verus!
fn main() {}
